"""Shared machine families."""

from .spec import M, S, T

GENERIC = {"before": "before_transition", "exit": "on_exit_state", "on": "on_transition",
           "enter": "on_enter_state", "after": "after_transition"}
PHASES = ("before", "exit", "on", "enter", "after")
PROVS = ("sm", "model", "L1")


SPARSE_NAMES = ("before_a", "on_a", "after_a", "after_b", "after_c", "on_exit_state",
                "on_enter_state")


def sparse_cb(x, phase):
    """Callback name serving (event x, phase) on the sparse ring, or None."""
    if phase in ("exit", "enter"):
        return None if x == "c" else GENERIC[phase]
    if x == "__initial__":
        return None
    name = {"before": "before_", "on": "on_", "after": "after_"}[phase] + x
    return name if name in SPARSE_NAMES else None


def ring3(asyn=False, provs=PROVS, guarded=False, sparse=False):
    """R3: s0 -a-> s1 -a-> s2 -a-> s0, external self-loop b, internal c, everything enabled
    everywhere; generic callbacks of every phase on every provider.
    guarded=True: s0 -a-> s1 carries cond g1 + validator v1, and s2 has no `a` (so a queued
    `a` can turn out not to be allowed)."""
    states = (S("s0", initial=True), S("s1"), S("s2"))
    trans = []
    for i in range(3):
        src, dst = f"s{i}", f"s{(i + 1) % 3}"
        if guarded and i == 0:
            trans.append(T(src, dst, ("a",), cond=("g1",), validators=("v1",)))
        elif guarded and i == 2:
            pass
        else:
            trans.append(T(src, dst, ("a",)))
        trans.append(T(src, src, ("b",)))
        trans.append(T(src, src, ("c",), internal=True))
    if guarded:
        trans.append(T("s2", "s0", ("r",)))
    fl = "a" if asyn else ""

    def flp(p):
        # asyn="mixed": only the machine's own callbacks are coroutines (that selects the async
        # engine); the model's and the listeners' callbacks are plain functions
        return ("a" if p == "sm" else "") if asyn == "mixed" else fl
    prov = []
    if sparse:
        # only event `a` has before/on callbacks: `b` and `c` return None, `a` a list
        provs = tuple(p for p in provs if p != "model")
        for p in provs:
            for nm in SPARSE_NAMES:
                prov.append((p, nm, flp(p)))
    else:
        for p in provs:
            for ph in PHASES:
                prov.append((p, GENERIC[ph], flp(p)))
    if guarded:
        prov.append(("sm", "g1", fl))
        prov.append(("sm", "v1", fl))
    return M(states=states, trans=tuple(trans), provided=tuple(prov),
             listeners=tuple(p for p in provs if p not in ("sm", "model")))

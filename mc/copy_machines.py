"""Importable (hence picklable) machine, model and listener classes for C17, together with the
abstract spec the reference uses for them."""

from statemachine import State, StateMachine

from .spec import M, S, T, Built, _mk_async, _mk_sync

NAMES_SM = ("before_transition", "on_exit_state", "on_transition", "on_enter_state",
            "after_transition", "g1")
NAMES_MODEL = ("on_enter_state", "after_transition")
NAMES_L = ("on_transition", "on_enter_s1", "lact")


def _hit(hits, *args, **kwargs):
    hits.append(len(hits))


def _instance_hook(sm):
    """A per-instance hook stored on the instance before StateMachine.__init__ runs (a picklable
    partial): it is a callback of this instance - and of its copies."""
    import functools
    sm.hits = []
    sm.on_enter_s2 = functools.partial(_hit, sm.hits)


class CopyModel:
    _prov = "model"

    def __init__(self, field="state"):
        setattr(self, field, None)
        self.payload = {"n": [1, 2, 3]}

    on_enter_state = _mk_sync("on_enter_state")
    after_transition = _mk_sync("after_transition")


class CopyModelAsync(CopyModel):
    on_enter_state = _mk_async("on_enter_state")
    after_transition = _mk_async("after_transition")


class CopyListener:
    _prov = "L1"

    def __init__(self):
        self.seen = []

    on_transition = _mk_sync("on_transition")
    on_enter_s1 = _mk_sync("on_enter_s1")
    lact = _mk_sync("lact")


class CopyListenerEq(CopyListener):
    """All instances compare equal (and hash alike): still distinct listeners."""

    def __eq__(self, other):
        return isinstance(other, CopyListenerEq)

    def __hash__(self):
        return 7


class CopyListenerFalsy(CopyListener):
    """A collection-like listener: falsy (empty) when it is attached and when it is copied."""

    def __len__(self):
        return len(self.seen)


class CopyListenerAsync(CopyListener):
    on_transition = _mk_async("on_transition")
    on_enter_s1 = _mk_async("on_enter_s1")
    lact = _mk_async("lact")


class CopySync(StateMachine):
    _prov = "sm"
    s0 = State(initial=True)
    s1 = State(value=0)
    s2 = State(value="")

    a = s0.to(s1, cond="g1") | s0.to(s2) | s1.to(s2) | s2.to(s0)
    b = s0.to.itself() | s1.to.itself() | s2.to.itself()

    def __init__(self, *args, **kwargs):
        self.custom = {"list": [1, 2], "tag": "x"}
        self._secret = ["s"]
        _instance_hook(self)
        super().__init__(*args, **kwargs)

    before_transition = _mk_sync("before_transition")
    on_exit_state = _mk_sync("on_exit_state")
    on_transition = _mk_sync("on_transition")
    on_enter_state = _mk_sync("on_enter_state")
    after_transition = _mk_sync("after_transition")
    g1 = _mk_sync("g1")


class CopyAsync(StateMachine):
    _prov = "sm"
    s0 = State(initial=True)
    s1 = State(value=0)
    s2 = State(value="")

    a = s0.to(s1, cond="g1") | s0.to(s2) | s1.to(s2) | s2.to(s0)
    b = s0.to.itself() | s1.to.itself() | s2.to.itself()

    def __init__(self, *args, **kwargs):
        self.custom = {"list": [1, 2], "tag": "x"}
        self._secret = ["s"]
        _instance_hook(self)
        super().__init__(*args, **kwargs)

    before_transition = _mk_async("before_transition")
    on_exit_state = _mk_async("on_exit_state")
    on_transition = _mk_async("on_transition")
    on_enter_state = _mk_async("on_enter_state")
    after_transition = _mk_async("after_transition")
    g1 = _mk_async("g1")


class CopyPlain(StateMachine):
    """All callbacks of the machine itself are plain functions: whether the async engine is needed
    is decided by the listener / model it is given."""
    _prov = "sm"
    s0 = State(initial=True)
    s1 = State(value=0)
    s2 = State(value="")

    a = s0.to(s1, cond="g1") | s0.to(s2) | s1.to(s2) | s2.to(s0)
    b = s0.to.itself() | s1.to.itself() | s2.to.itself()

    def __init__(self, *args, **kwargs):
        self.custom = {"list": [1, 2], "tag": "x"}
        self._secret = ["s"]
        _instance_hook(self)
        super().__init__(*args, **kwargs)

    before_transition = _mk_sync("before_transition")
    on_exit_state = _mk_sync("on_exit_state")
    on_transition = _mk_sync("on_transition")
    on_enter_state = _mk_sync("on_enter_state")
    after_transition = _mk_sync("after_transition")
    g1 = _mk_sync("g1")


class CopyLis(StateMachine):
    """An inline action name (`on="lact"`) that only the constructor listener provides."""
    _prov = "sm"
    s0 = State(initial=True)
    s1 = State(value=0)
    s2 = State(value="")

    a = s0.to(s1, cond="g1", on="lact") | s0.to(s2) | s1.to(s2, on="lact") | s2.to(s0)
    b = s0.to.itself() | s1.to.itself() | s2.to.itself()

    def __init__(self, *args, **kwargs):
        self.custom = {"list": [1, 2], "tag": "x"}
        self._secret = ["s"]
        _instance_hook(self)
        super().__init__(*args, **kwargs)

    before_transition = _mk_sync("before_transition")
    on_exit_state = _mk_sync("on_exit_state")
    on_transition = _mk_sync("on_transition")
    on_enter_state = _mk_sync("on_enter_state")
    after_transition = _mk_sync("after_transition")
    g1 = _mk_sync("g1")


class PropLock:
    """A listener whose class owns a property that a transition uses as guard *by reference*."""

    def __init__(self, unlocked):
        self.unlocked = unlocked
        self.reads = 0

    @property
    def is_unlocked(self):
        self.reads += 1
        return self.unlocked


class PropDoor(StateMachine):
    closed = State(initial=True)
    opened = State()
    open = closed.to(opened, cond=PropLock.is_unlocked)
    shut = opened.to(closed)


def _same_named_decoys():
    """Other live machine classes with the same module and class *name* (declared later, in a
    function body - e.g. a class factory or a re-declaration in a notebook): copies of the
    instances of the classes above must stay instances of the classes above."""
    out = []
    for nm in ("CopySync", "CopyAsync", "CopyPlain", "CopyLis"):
        ns = {"s0": State(initial=True), "s1": State(value=0), "__module__": __name__}
        ns["a"] = ns["s0"].to(ns["s1"]) | ns["s1"].to(ns["s0"])
        out.append(type(StateMachine)(nm, (StateMachine,), ns))
    return out


DECOYS = _same_named_decoys()


def spec(with_model=True, with_listener=True, lis_action=False):
    states = (S("s0", initial=True), S("s1", value=0), S("s2", value=""))
    la = ("lact",) if lis_action else ()
    trans = (T("s0", "s1", ("a",), cond=("g1",), on=la), T("s0", "s2", ("a",)),
             T("s1", "s2", ("a",), on=la),
             T("s2", "s0", ("a",)), T("s0", "s0", ("b",)), T("s1", "s1", ("b",)),
             T("s2", "s2", ("b",)))
    prov = [("sm", n, "") for n in NAMES_SM]
    if with_model:
        prov += [("model", n, "") for n in NAMES_MODEL]
    if with_listener:
        prov += [("L1", n, "") for n in NAMES_L]
    return M(states=states, trans=trans, provided=tuple(prov),
             listeners=("L1",) if with_listener else ())


def built_for(kind, with_model=True, with_listener=True):
    cls = {"sync": CopySync, "async": CopyAsync, "plain": CopyPlain, "lis": CopyLis}[kind]
    m = spec(with_model, with_listener, lis_action=(kind == "lis"))
    tr = []
    for s in cls.states:
        pass
    # transitions in the reference's declaration order: a-list then b-list
    order = [("s0", "s1"), ("s0", "s2"), ("s1", "s2"), ("s2", "s0")]
    bya = {}
    for s in cls.states:
        for t in s.transitions:
            bya.setdefault((str(t.event), t.source.id, t.target.id), t)
    tr = [bya[("a", x, y)] for (x, y) in order] + [bya[("b", f"s{i}", f"s{i}")] for i in range(3)]
    return Built(m, cls, tr, {}, None, {})

"""CLI:  python -m mc.cli <ID> [--tier quick|thorough] [--replay FILE]"""

import argparse
import importlib
import json
import os
import sys


def main(argv=None):
    ap = argparse.ArgumentParser()
    ap.add_argument("pid")
    ap.add_argument("--tier", default=os.environ.get("VERIF_TIER") or "quick",
                    choices=["quick", "thorough"])
    ap.add_argument("--replay")
    ap.add_argument("--procs", type=int, default=0)
    args = ap.parse_args(argv)
    seed = int(os.environ.get("VERIF_SEED", "0") or 0)
    repo = os.environ.get("VERIF_REPO", "/repo")
    import statemachine
    if not os.path.realpath(statemachine.__file__).startswith(os.path.realpath(repo) + os.sep):
        print(f"HARNESS-ERROR: statemachine imported from {statemachine.__file__}, not {repo}")
        return 2
    import warnings
    warnings.simplefilter("ignore")
    if args.procs:
        os.environ["VERIF_NPROC"] = str(args.procs)
    mod = importlib.import_module(f"mc.checks.{args.pid.lower()}")
    if args.replay:
        with open(args.replay) as f:
            body = json.load(f)
        sc = body["scenario"]
        if isinstance(sc, dict) and set(sc) == {"block"}:
            # block-level artefact (the library raised an unanticipated exception)
            def _t(x):
                return tuple(_t(y) for y in x) if isinstance(x, list) else x
            try:
                r = mod.worker(_t(sc["block"]))
                msg = r.violations[0]["message"] if r.violations else None
            except Exception as e:   # noqa: BLE001
                msg = f"{type(e).__name__}: {e}"
        else:
            msg = mod.replay(sc)
        if msg:
            print(f"REPRODUCED property={args.pid}: {msg}")
            print(f"VIOLATION property={args.pid} replay={args.replay}")
            return 1
        print(f"NOT-REPRODUCED property={args.pid} (scenario passes on this tree)")
        return 0
    return mod.run(args.tier, seed)


if __name__ == "__main__":
    sys.exit(main())

"""Drive the real library under a configuration and compare with the reference."""

import asyncio
import inspect
import warnings
from collections import Counter

from .env import CUR, Boom, Env, ValidatorError
from .match import match_groups, phase_discipline
from .ref import Cfg, Outcome, RefInvalidStateValue, RefTNA

_LOOP = None


def loop():
    global _LOOP
    if _LOOP is None or _LOOP.is_closed():
        _LOOP = asyncio.new_event_loop()
    return _LOOP


_VL = None


def VL():
    """The process-wide virtual loop (created lazily, after fork)."""
    global _VL
    if _VL is None:
        from .aloop import VLoop
        _VL = VLoop()
    return _VL


def install_virtual_loop():
    """Make the library's sync facade (run_async_from_sync) run on the virtual loop."""
    import threading
    import statemachine.utils as u
    from .aloop import VPolicy
    asyncio.set_event_loop_policy(VPolicy(VL()))
    u._cached_loop = threading.local()


def reset_loops():
    """Call in freshly forked workers: never share event loops across processes."""
    global _LOOP
    _LOOP = None
    import threading
    import statemachine.utils as u
    u._cached_loop = threading.local()


def CFG8():
    out = []
    for rtc in (True, False):
        for allow in (False, True):
            out.append(Cfg("sync", rtc, allow, "direct"))
    for allow in (False, True):
        for drv in ("facade", "inloop"):
            out.append(Cfg("async", True, allow, drv))
    return out


class Impl:
    """One live machine instance + its Env."""

    def __init__(self, built, cfg, plan=None, stored=None, start_value=None, deep=False,
                 model=None, listeners=None, state_field="state", results="cid",
                 measure_depth=False, env=None):
        self.built = built
        self.cfg = cfg
        self.env = env or Env(built, plan=plan, deep=deep, results=results,
                              measure_depth=measure_depth)
        self.env.flat_mode = (cfg.engine == "async")
        self.stored = stored
        self.start_value = start_value
        self.model = model
        self.listeners = listeners
        self.state_field = state_field
        self.sm = None

    # -- running one operation --------------------------------------------------
    def _run(self, fn, discard=False, must_await=False):
        env = self.env
        env.top = []
        env.stack = []
        env.flat = []
        CUR.env = env
        try:
            if self.cfg.engine == "async" and self.cfg.driver == "vinloop":
                async def vco():
                    r = fn()
                    if inspect.isawaitable(r):
                        r = await r
                    elif must_await:
                        raise NotAwaitable(f"inside a running loop the call returned {r!r}, "
                                           f"which cannot be awaited")
                    return r
                r = VL().run_until_complete(vco())
            elif self.cfg.engine == "async" and self.cfg.driver == "inloop":
                async def co():
                    r = fn()
                    if inspect.isawaitable(r):
                        r = await r
                    elif must_await:
                        raise NotAwaitable(f"inside a running loop the call returned {r!r}, "
                                           f"which cannot be awaited")
                    return r
                r = loop().run_until_complete(co())
            else:
                r = fn()
                if inspect.isawaitable(r):   # pragma: no cover - facade never returns these
                    r.close()
                    return Outcome("exc", AssertionError("facade returned an awaitable"), env.top)
        except Exception as e:
            CUR.env = None
            return self._pure() or Outcome("exc", e, self._obs())
        finally:
            CUR.env = None
        return self._pure() or Outcome("ok", None if discard else r, self._obs())

    def _pure(self):
        """Between any two operations a read-only part of the public API is used (instance and
        class diagram, repr, listing events / states / transitions, allowed events, is_active):
        it must run no callback and change nothing - whatever it changed shows up in the
        comparison of the operations that follow."""
        sm = self.sm
        if sm is None or not PURE_QUERIES:
            return None
        self._npure = k = getattr(self, "_npure", -1) + 1
        leak = _PureEnv()
        CUR.env = leak
        try:
            if k == 0:
                # the first pause of every instance draws the instance; the class is drawn (and
                # everything else is asked once) when the class is first met in this process
                qs = _QUERIES[:1] if id(type(sm)) in _SEEN_CLASSES else _QUERIES
                _SEEN_CLASSES[id(type(sm))] = type(sm)
            else:
                qs = (_QUERIES[k % len(_QUERIES)],)
            for q in qs:
                try:
                    q(sm)
                except Exception:   # noqa: BLE001,S110 - what a query raises is not this oracle's business
                    pass
        finally:
            CUR.env = None
        if leak.ran:
            return Outcome("exc", AssertionError(
                f"a read-only query ran user callbacks: {leak.ran[:3]}"), self._obs())
        return None

    def _obs(self):
        return self.env.flat if self.cfg.engine == "async" else self.env.top

    def construct(self):
        b = self.built

        def fn():
            if getattr(self, "mixin", False):
                from statemachine import registry
                from statemachine.mixins import MachineMixin
                registry._initialized = True   # not a django project: no module autodiscovery
                registry.register(b.cls)
                fld = getattr(self, "mixin_field", "state")
                ns = {"state_machine_name": f"{b.cls.__module__}.{b.cls.__name__}",
                      "bind_events_as_methods": True, "_prov": "model",
                      "state_field_name": fld}
                from .spec import _mk
                for (pp, nn, ff) in b.m.provided:
                    if pp == "model":
                        ns[nn] = _mk(nn, ff)
                self.state_field = fld
                # The model class derives from another mixed-in model class (other machine,
                # other state field) that was instantiated first, and it loads its stored state
                # in the __init__ of a further base class listed after the mixin: what the
                # parent resolved is the parent's business, and the machine is built over the
                # loaded model.
                decoy = _decoy_machine()
                parent = type("ParentModel", (MachineMixin,), {
                    "state_machine_name": f"{decoy.__module__}.{decoy.__name__}",
                    "state_field_name": "parent_state", "parent_state": None, "_prov": "model"})
                parent()
                stored = self.stored

                class Record:
                    def __init__(self):
                        setattr(self, fld, stored)
                self.model = type("MixModel", (parent, Record), ns)()
                self.sm = self.model.statemachine
                return None
            if self.model is None:
                self.model = b.new_model(self.stored, self.state_field)
            if self.listeners is None:
                self.listeners = b.new_listeners()
            kw = {}
            if self.state_field != "state":
                kw["state_field"] = self.state_field
            if self.start_value is not None:
                kw["start_value"] = self.start_value
            if self.listeners:
                kw["listeners"] = self.listeners
            self.sm = b.cls(self.model, rtc=self.cfg.rtc,
                            allow_event_without_transition=self.cfg.allow, **kw)
            return None
        return self._run(fn)

    def activate(self):
        return self._run(lambda: self.sm.activate_initial_state(), discard=True,
                         must_await=True)

    def send(self, ev, vals=None, tag=None, args=(), kw=None, style="send"):
        if vals is not None:
            self.env.vals = vals
        kw = dict(kw or {})
        if tag is not None:
            kw["tag"] = tag
        # every other send also carries user keywords named like the built-in context: they must
        # be ignored (C07: "cannot be overridden or leaked through user keyword arguments"), so
        # nothing observable may change - the recorded event/source/target/state of every
        # callback and the event-named callbacks that run are compared as always
        self._nsend = getattr(self, "_nsend", -1) + 1
        if self._nsend % 2 == 0:
            kw.update(HOSTILE_KW)
            if style not in ("send", "foreign"):      # send() itself has a parameter `event`
                kw["event"] = "user-supplied"
        if style == "send":
            return self._run(lambda: self.sm.send(ev, *args, **kw), must_await=True)
        if style == "method":
            return self._run(lambda: getattr(self.sm, ev)(*args, **kw), must_await=True)
        if style == "events_item":
            return self._run(lambda: _pick(self.sm.events, ev)(*args, **kw), must_await=True)
        if style == "allowed_item":
            return self._run(lambda: _pick(self.sm.allowed_events, ev)(*args, **kw), must_await=True)
        if style == "bound":
            if getattr(self, "_bound", None) is None:
                self._bound = _Plain()
                self.sm.bind_events_to(self._bound)
            return self._run(lambda: getattr(self._bound, ev)(*args, **kw), must_await=True)
        if style == "foreign":
            # the Event object comes from *another* instance of the class: passing it to send()
            # must drive this machine, not the one the object was taken from
            if getattr(self, "_other", None) is None:
                b = self.built
                self._other = b.cls(b.new_model(), rtc=self.cfg.rtc,
                                    allow_event_without_transition=self.cfg.allow)
                r0 = self._other.activate_initial_state()
                if inspect.isawaitable(r0):
                    loop().run_until_complete(r0)
            other = self._other
            before = other.current_state_value

            def fn():
                return self.sm.send(_pick(other.events, ev), *args, **kw)
            out = self._run(fn, must_await=True)
            if other.current_state_value != before:
                return Outcome("exc", AssertionError(
                    "send(<event of another instance>) drove that other instance"), out.groups)
            return out
        if style == "mixin":
            return self._run(lambda: getattr(self.sm.model, ev)(*args, **kw), must_await=True)
        raise AssertionError(style)

    @property
    def value(self):
        return getattr(self.sm.model, self.state_field, None)


class _Plain:
    pass


PURE_QUERIES = True
_SEEN_CLASSES = {}


class _PureEnv:
    def __init__(self):
        self.ran = []

    def call(self, obj, name, args, kwargs):
        self.ran.append(name)
        return None

    async def acall(self, obj, name, args, kwargs):
        self.ran.append(name)
        return None


def _q_class_diagram(sm):
    from statemachine.contrib.diagram import DotGraphMachine
    return DotGraphMachine(type(sm))().to_string()


_QUERIES = (
    lambda sm: sm._graph().to_string(),
    _q_class_diagram,
    lambda sm: repr(sm),
    lambda sm: [str(e) for e in sm.allowed_events],
    lambda sm: [(s.id, getattr(sm, s.id).is_active) for s in sm.states],
    lambda sm: [str(e) for e in sm.events],
    lambda sm: [(t.source.id, t.target.id, t.event, t.internal, list(t.cond), list(t.unless))
                for s in sm.states for t in s.transitions],
    lambda sm: (sm.current_state, sm.current_state_value, sm.model),
    lambda sm: [(s.id, s.value, s.name, s.initial, s.final, repr(s)) for s in type(sm).states],
    lambda sm: sorted(type(sm).states_map),
)


_DECOY = []


def _decoy_machine():
    if not _DECOY:
        from statemachine import State, StateMachine
        from statemachine.factory import StateMachineMetaclass
        x, y = State(initial=True), State()
        _DECOY.append(StateMachineMetaclass("DecoyMixMachine", (StateMachine,),
                                            {"x": x, "y": y, "flip": x.to(y) | y.to(x),
                                             "__module__": __name__}))
    return _DECOY[0]


HOSTILE_KW = {k: "user-supplied" for k in ("state", "source", "target", "transition", "model",
                                           "machine", "event_data")}


class NotAwaitable(Exception):
    """An async machine driven inside a running loop must hand back awaitables
    (`await sm.send(...)`, `await sm.activate_initial_state()`)."""


def _pick(events, ev):
    found = [e for e in events if e == ev]
    if len(found) != 1:
        raise AssertionError(f"event {ev!r} listed {len(found)} times in {[str(e) for e in events]}")
    return found[0]


def exc_equiv(e, o):
    """expected (reference) exception vs observed one."""
    from statemachine.exceptions import InvalidStateValue, TransitionNotAllowed
    if isinstance(e, RefTNA):
        if type(o) is not TransitionNotAllowed:
            return False
        try:
            return str(o.event) == e.event and o.state.id == e.state
        except Exception:
            return False
    if isinstance(e, RefInvalidStateValue):
        return isinstance(o, InvalidStateValue)
    if isinstance(e, (Boom, ValidatorError)):
        return type(o) is type(e) and o.args == e.args
    return type(o) is type(e)


def result_equiv(e, o):
    if isinstance(e, list) and isinstance(o, list):
        try:
            return Counter(map(repr, e)) == Counter(map(repr, o))
        except Exception:  # pragma: no cover
            return e == o
    return type(e) is type(o) and e == o


def compare(exp, obs, ref, impl, check_store=True, async_phase=True):
    """Returns None when the observed outcome agrees with the reference, else a message."""
    if exp.kind != obs.kind:
        return (f"outcome kind: expected {exp.kind} {_short(exp.value)} observed {obs.kind} "
                f"{_short(obs.value)}")
    if exp.kind == "exc":
        if not exc_equiv(exp.value, obs.value):
            return f"exception: expected {_short(exp.value)} observed {_short(obs.value)}"
    else:
        if not result_equiv(exp.value, obs.value):
            return f"result: expected {exp.value!r} observed {obs.value!r}"
    r = match_groups(exp.groups, obs.groups)
    if r:
        return "trace: " + r
    if impl.env.deep:
        for o in impl.env.flat:
            if o.active is None or o.cur is None:
                continue
            try:
                want = (impl.built.m.by_value(o.cur).id,)
            except KeyError:
                want = ()
            if o.active != want:
                return (f"is_active seen inside {o.brief()}: expected exactly {want} active, "
                        f"observed {o.active}")
        if impl.env.notes:
            return f"inside callbacks: {impl.env.notes[:3]}"
    if impl.cfg.engine == "async" and async_phase:
        r = phase_discipline(exp.groups, obs.groups)
        if r:
            return "phase discipline: " + r
    if check_store and impl.sm is not None:
        ov = impl.value
        if ov != ref.value or type(ov) is not type(ref.value):
            return f"stored state value: expected {ref.value!r} observed {ov!r}"
    if ref.nested_returns or impl.env.nested_returns:
        a = [(c, ev, t, _norm(r)) for (c, ev, t, r) in ref.nested_returns]
        b = [(c, ev, t, _norm(r)) for (c, ev, t, r) in impl.env.nested_returns]
        if a != b:
            return f"nested send return values: expected {a!r} observed {b!r}"
    return None


def _norm(r):
    if isinstance(r, tuple) and len(r) == 2 and r[0] == "EXC":
        e = r[1]
        if isinstance(e, RefTNA):
            return ("EXC", "TransitionNotAllowed", e.event, e.state)
        if type(e).__name__ == "TransitionNotAllowed":
            try:
                return ("EXC", "TransitionNotAllowed", str(e.event), e.state.id)
            except Exception:
                return ("EXC", "TransitionNotAllowed", "?", "?")
        return ("EXC", type(e).__name__, e.args)
    return r


def _short(v):
    s = repr(v)
    return s if len(s) < 200 else s[:200] + "..."


def quiet_warnings():
    warnings.simplefilter("ignore")


# --------------------------------------------------------------------------------------
# generic operation runner (used by several checks and by --replay)

TV = (True, 1, "x", [0], 2)
FV = (False, 0, "", None, [])


def typed_vals(vals, salt=0):
    """Map abstract valuations {name: bool} to typed truthy/falsy values (deterministic)."""
    out = {}
    for i, (k, v) in enumerate(sorted(vals.items(), key=lambda kv: str(kv[0]))):
        if isinstance(v, bool):
            out[k] = (TV if v else FV)[(salt + i) % 5]
        else:
            out[k] = v
    return out


def queue_len(sm):
    """Length of the engine's event queue, or None when the engine keeps it elsewhere than the
    pinned tree does (the check then has no opinion instead of failing on an internal name)."""
    q = getattr(getattr(sm, "_engine", None), "_external_queue", None)
    try:
        return len(q)
    except TypeError:
        return None


def lock_held(sm):
    pr = getattr(getattr(sm, "_engine", None), "_processing", None)
    if pr is None:
        return None
    return pr.locked() if hasattr(pr, "locked") else bool(pr)


def leak(sm, expected_queue=0):
    q = queue_len(sm)
    locked = lock_held(sm)
    if (q is not None and q != expected_queue) or locked:
        return (f"engine left dirty after a completed call: queue length {q} (expected "
                f"{expected_queue}), lock held {locked}")
    return None


class Pair:
    """Reference + implementation for one (machine, cfg, plan); runs ops in lock-step."""

    def __init__(self, built, cfg, plan=None, stored=None, start_value=None, deep=False,
                 results="cid", model=None, state_field="state", listeners=None):
        from .ref import Ref
        self.built = built
        self.cfg = cfg
        self.ref = Ref(built.m, cfg, plan=plan, stored=stored, start_value=start_value,
                       results=results)
        self.impl = Impl(built, cfg, plan=plan, stored=stored, start_value=start_value,
                         deep=deep, results=results, model=model, state_field=state_field,
                         listeners=listeners)
        self.steps = 0
        self.last = None

    def construct(self):
        e = self.ref.construct()
        o = self.impl.construct()
        return self._cmp(e, o, "construct")

    def activate(self):
        e = self.ref.activate()
        o = self.impl.activate()
        return self._cmp(e, o, "activate")

    def install(self, value):
        self.ref.value = value
        try:
            self.impl.sm.current_state_value = value
        except Exception as ex:
            return f"install {value!r}: {type(ex).__name__}: {ex}"
        return None

    def send(self, ev, vals=None, tag=None, style="send"):
        vals = vals or {}
        e = self.ref.send(ev, vals, tag=tag)
        o = self.impl.send(ev, vals, tag=tag, style=style)
        return self._cmp(e, o, f"send {ev}")

    def _cmp(self, e, o, what):
        self.steps += 1
        r = compare(e, o, self.ref, self.impl)
        if r:
            return f"{what}: {r}"
        if self.impl.sm is not None:
            r = leak(self.impl.sm, len(self.ref.queue))
            if r:
                return f"{what}: {r}"
        self.last = (e, o)
        return None

    def check_views(self):
        """allowed_events / current_state / is_active against the reference."""
        sm = self.impl.sm
        if self.ref.value is None:
            return None
        s = self.ref.cur()
        try:
            cs = sm.current_state
            if cs.id != s.id:
                return f"current_state.id expected {s.id} observed {cs.id}"
            al = [str(e) for e in sm.allowed_events]
        except Exception as ex:
            return f"views raised {type(ex).__name__}: {ex}"
        exp = self.built.m.allowed(s.id)
        if al != exp:
            return f"allowed_events in {s.id}: expected {exp} observed {al}"
        evs = [str(e) for e in sm.events]
        want = self.built.m.all_events()
        if sorted(evs) != sorted(want):
            return f"events: expected {sorted(want)} observed {sorted(evs)}"
        return None


def run_ops(built, cfg, plan, ops, deep=False):
    """ops: list of tuples; returns (message|None, Pair)."""
    p = None
    for op in ops:
        k = op[0]
        if k == "new":
            p = Pair(built, cfg, plan=plan, stored=op[1], start_value=op[2] if len(op) > 2 else None,
                     deep=deep)
            r = p.construct()
        elif k == "install":
            r = p.install(op[1])
        elif k == "send":
            r = p.send(op[1], op[2] if len(op) > 2 else None, tag=op[3] if len(op) > 3 else None,
                       style=op[4] if len(op) > 4 else "send")
            if r is None:
                r = p.check_views()
        elif k == "activate":
            r = p.activate()
        else:  # pragma: no cover
            raise AssertionError(op)
        if r:
            return f"op {op!r}: {r}", p
    return None, p

"""Process-parallel driver with per-scenario deadlines (waiting made visible)."""

import multiprocessing as mp
import os
import random
import signal
import time
from collections import Counter
from contextlib import contextmanager


class Hang(BaseException):
    """Raised by the deadline timer.  Not an Exception: neither the library's nor the harness's
    `except Exception` clauses may turn a deadline into an ordinary callback failure."""


def _on_alarm(signum, frame):
    raise Hang("scenario exceeded its deadline")


@contextmanager
def deadline(seconds):
    old = signal.signal(signal.SIGALRM, _on_alarm)
    signal.setitimer(signal.ITIMER_REAL, seconds)
    try:
        yield
    finally:
        signal.setitimer(signal.ITIMER_REAL, 0)
        signal.signal(signal.SIGALRM, old)


def _plain(x):
    import json
    try:
        return json.loads(json.dumps(x, default=repr))
    except (TypeError, ValueError):
        return json.loads(json.dumps(repr(x)))


class BlockResult:
    def __init__(self):
        self.stats = Counter()
        self.hist = Counter()
        self.violations = []
        self.samples = []
        self.notes = []
        self._per_sig = {}
        self.hist_sig = {}

    def violation(self, sig, scenario, message):
        # plain JSON data only: objects of the library (str subclasses carrying a machine, ...)
        # must not travel between processes or into replay files
        sig = _plain(sig)
        scenario = _plain(scenario)
        message = str(message)[:] + ""
        # keep a few examples per distinct signature so that one frequent category cannot hide
        # the others
        key = repr(sorted(sig.items()))
        n = self._per_sig.get(key, 0)
        self._per_sig[key] = n + 1
        if n < 3 and len(self.violations) < 300:
            self.violations.append({"sig": sig, "scenario": scenario, "message": message})
        self.stats["violations_total"] += 1
        self.hist_sig[key] = self.hist_sig.get(key, 0) + 1


_WORK = None


def _init(worker_fn):
    global _WORK
    _WORK = worker_fn
    import warnings
    warnings.simplefilter("ignore")
    try:
        from .drive import reset_loops
        reset_loops()
    except Exception:  # pragma: no cover
        pass


def _call(block):
    t0 = time.time()
    try:
        r = _WORK(block)
    except Exception as e:  # never silently drop a block
        import traceback
        r = BlockResult()
        tb = traceback.extract_tb(e.__traceback__)
        repo = os.path.realpath(os.environ.get("VERIF_REPO", "/repo")) + os.sep
        in_lib = [f for f in tb if os.path.realpath(f.filename).startswith(repo)]
        if in_lib:
            # the library itself raised something no check anticipated: that is a finding about
            # the code under test, not a harness fault
            last = in_lib[-1]
            r.violation({"category": "unexpected-library-exception", "exc": type(e).__name__},
                        {"block": list(block) if isinstance(block, tuple) else block},
                        f"unexpected {type(e).__name__}: {e} raised from "
                        f"{os.path.relpath(last.filename, repo)}:{last.lineno} ({last.name}) while "
                        f"running block {block!r}")
            r.notes.append("library exception in block %r: %s" % (block, e))
        else:
            r.notes.append("HARNESS-ERROR in block %r: %s\n%s" % (block, e,
                                                                 traceback.format_exc()))
            r.stats["harness_errors"] += 1
    r.stats["block_s_max"] = max(r.stats.get("block_s_max", 0), int((time.time() - t0) * 1000))
    return r


def nproc():
    try:
        return int(os.environ.get("VERIF_NPROC", "0")) or min(16, len(os.sched_getaffinity(0)))
    except Exception:  # pragma: no cover
        return 4


def run_blocks(worker_fn, blocks, seed=0, procs=None, time_cap=None):
    """Runs worker_fn(block) for every block; returns the merged BlockResult and whether the
    time cap cut the enumeration short (blocks_done, blocks_total)."""
    blocks = list(blocks)
    rnd = random.Random(seed)
    rnd.shuffle(blocks)   # the seed only permutes traversal order / worker assignment
    total = BlockResult()
    procs = procs or nproc()
    done = 0
    t0 = time.time()
    capped = False
    if procs <= 1 or len(blocks) <= 1:
        _init(worker_fn)
        it = map(_call, blocks)
        pool = None
    else:
        ctx = mp.get_context("fork")
        pool = ctx.Pool(procs, initializer=_init, initargs=(worker_fn,))
        it = pool.imap_unordered(_call, blocks, chunksize=1)
    try:
        for r in it:
            done += 1
            merge(total, r)
            if time_cap and time.time() - t0 > time_cap:
                capped = True
                break
    finally:
        if pool is not None:
            pool.terminate()
            pool.join()
    total.stats["blocks_done"] = done
    total.stats["blocks_total"] = len(blocks)
    return total, capped


def merge(total, r):
    for k, v in r.stats.items():
        if k.endswith("_max"):
            total.stats[k] = max(total.stats.get(k, 0), v)
        else:
            total.stats[k] += v
    total.hist.update(r.hist)
    for v in r.violations:
        key = repr(sorted(v["sig"].items()))
        n = total._per_sig.get(key, 0)
        total._per_sig[key] = n + 1
        if n < 3 and len(total.violations) < 300:
            total.violations.append(v)
    for k, c in r.hist_sig.items():
        total.hist_sig[k] = total.hist_sig.get(k, 0) + c
    if len(total.samples) < 12:
        total.samples.extend(r.samples[: 12 - len(total.samples)])
    total.notes.extend(r.notes[:5])

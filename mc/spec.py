"""Abstract machine specs and the programmatic renderer (spec -> real class)."""

import re
from dataclasses import dataclass, field, asdict
from typing import Any, Tuple

from .env import CUR

IDENT = re.compile(r"^[A-Za-z_][A-Za-z_0-9]*$")


@dataclass(frozen=True)
class S:
    id: str
    initial: bool = False
    final: bool = False
    value: Any = None          # None -> the library defaults it to the id
    name: Any = None
    enter: Tuple[str, ...] = ()
    exit: Tuple[str, ...] = ()

    @property
    def val(self):
        return self.id if self.value is None else self.value


@dataclass(frozen=True)
class T:
    src: str
    dst: str
    events: Tuple[str, ...]
    internal: bool = False
    cond: Tuple[str, ...] = ()
    unless: Tuple[str, ...] = ()
    validators: Tuple[str, ...] = ()
    before: Tuple[str, ...] = ()
    on: Tuple[str, ...] = ()
    after: Tuple[str, ...] = ()


@dataclass(frozen=True)
class M:
    states: Tuple[S, ...]
    trans: Tuple[T, ...]
    # (provider, name, flags)  provider in {"sm","model","L1","L2",...,"fn"}; flags: "a" coroutine
    provided: Tuple[Tuple[str, str, str], ...] = ()
    listeners: Tuple[str, ...] = ()      # listener provider labels attached at construction
    awaits: Tuple[Tuple[str, str, int], ...] = ()   # (provider, name, number of await points)

    def to_json(self):
        return asdict(self)

    @staticmethod
    def from_json(d):
        return M(
            states=tuple(S(**{**s, "enter": tuple(s["enter"]), "exit": tuple(s["exit"])})
                         for s in d["states"]),
            trans=tuple(T(**{k: (tuple(v) if isinstance(v, list) else v) for k, v in t.items()})
                        for t in d["trans"]),
            provided=tuple(tuple(p) for p in d.get("provided", ())),
            listeners=tuple(d.get("listeners", ())),
            awaits=tuple(tuple(a) for a in d.get("awaits", ())),
        )

    # -- derived ---------------------------------------------------------------
    def state(self, sid):
        for s in self.states:
            if s.id == sid:
                return s
        raise KeyError(sid)

    def by_value(self, v):
        for s in self.states:
            if s.val == v and type(s.val) is type(v):
                return s
        for s in self.states:
            if s.val == v:
                return s
        raise KeyError(v)

    @property
    def initial(self):
        return next(s for s in self.states if s.initial)

    def providers_of(self, name):
        """Providers that define attribute *name*, in provider order."""
        order = ["sm", "model"] + list(self.listeners)
        have = {p for (p, n, _f) in self.provided if n == name}
        return [p for p in order if p in have]

    def is_async(self):
        return any("a" in f for (_p, _n, f) in self.provided)

    def roles(self):
        roles = {}
        for t in self.trans:
            for e in t.cond + t.unless:
                for nm in names_in(e):
                    roles[nm] = "guard"
            for v in t.validators:
                roles[v.lstrip("@%")] = "val"
        return roles

    def all_events(self):
        out = []
        for t in self.trans:
            for e in t.events:
                if e not in out:
                    out.append(e)
        return out

    def allowed(self, sid):
        out = []
        for t in self.trans:
            if t.src == sid:
                for e in t.events:
                    if e not in out:
                        out.append(e)
        return out


_KW = {"and", "or", "not", "True", "False", "None", "v"}


def names_in(entry):
    """Names referenced by a cond/unless entry (plain name or boolean expression)."""
    if entry.startswith("@") or entry.startswith("%"):
        return [entry[1:]]
    if IDENT.match(entry):
        return [entry]
    out = []
    for tok in re.findall(r"[A-Za-z_][A-Za-z_0-9]*", re.sub(r"'[^']*'", "", entry)):
        if tok not in _KW and tok not in out:
            out.append(tok)
    return out


# --------------------------------------------------------------------------------
# shims


def _mk_sync(name):
    def cb(self, *args, **kwargs):
        return CUR.env.call(self, name, args, kwargs)

    cb.__name__ = name
    cb.__qualname__ = f"HS.{name}"
    return cb


def _mk_async(name):
    async def acb(self, *args, **kwargs):
        return await CUR.env.acall(self, name, args, kwargs)

    acb.__name__ = name
    acb.__qualname__ = f"HA.{name}"
    return acb


def _mk_wrapped(name):
    """A plain function that returns an awaitable (e.g. an `async def` hidden behind an
    ordinary decorator): the async engine must still await it."""
    def wcb(self, *args, **kwargs):
        return CUR.env.acall(self, name, args, kwargs)

    wcb.__name__ = name
    wcb.__qualname__ = f"HW.{name}"
    return wcb


def _mk_async_wrapper(name):
    """An `async def` wrapper created with functools.wraps around a *plain* function (an
    @offloaded / @retry style helper): it is a coroutine function and must be treated as one."""
    import functools

    def inner(self, *args, **kwargs):
        return None

    inner.__name__ = name
    inner.__qualname__ = f"HI.{name}"

    @functools.wraps(inner)
    async def awrap(self, *args, **kwargs):
        return await CUR.env.acall(self, name, args, kwargs)
    return awrap


def _mk_sync_wrapper(name):
    """A *plain* function created with functools.wraps around an `async def` (an async-to-sync
    adapter that runs the coroutine itself and hands back a plain value): it is not a coroutine
    function and must be treated as the plain function it is."""
    import functools

    async def inner(self, *args, **kwargs):
        return None

    inner.__name__ = name
    inner.__qualname__ = f"HSI.{name}"

    @functools.wraps(inner)
    def swrap(self, *args, **kwargs):
        return CUR.env.call(self, name, args, kwargs)
    return swrap


def _mk(name, flags):
    if "S" in flags:
        return _mk_sync_wrapper(name)
    if "W" in flags:
        return _mk_async_wrapper(name)
    if "w" in flags:
        return _mk_wrapped(name)
    return _mk_async(name) if "a" in flags else _mk_sync(name)


def _mk_fn_sync(name):
    def fn(*args, **kwargs):
        return CUR.env.call("fn", name, args, kwargs)

    fn.__name__ = name
    fn.__qualname__ = f"HFS.{name}"
    return fn


def _mk_fn_async(name):
    async def afn(*args, **kwargs):
        return await CUR.env.acall("fn", name, args, kwargs)

    afn.__name__ = name
    afn.__qualname__ = f"HFA.{name}"
    return afn


class Built:
    def __init__(self, m, cls, tr_objs, fns, model_cls, listener_cls):
        self.m = m
        self.cls = cls
        self.tr_objs = tr_objs
        self.tidx_of = {id(t): i for i, t in enumerate(tr_objs)}
        self.roles = m.roles()
        self.await_points = {(p, n): k for (p, n, k) in m.awaits}
        self.fns = fns
        self.model_cls = model_cls
        self.listener_cls = listener_cls

    def new_model(self, stored=None, field="state"):
        if self.model_cls is None:
            if stored is None:
                return None
            from statemachine.model import Model
            mod = Model()
            mod.state = stored
            return mod
        mod = self.model_cls()
        setattr(mod, field, stored)
        return mod

    def new_listeners(self):
        return [self.listener_cls[lab]() for lab in self.m.listeners]


class _WarmEnv:
    def call(self, *a, **k):
        return True

    async def acall(self, *a, **k):
        return True


def _warm_up(base_cls, events):
    """Before the subclass is declared, an instance of the base class is created and meets
    every event once (results irrelevant): whatever the library memoises per class or per state
    on first use exists by the time the subclass extends the inherited states."""
    import inspect
    import warnings
    old = CUR.env
    CUR.env = _WarmEnv()
    try:
        with warnings.catch_warnings():
            warnings.simplefilter("ignore")
            w = base_cls()
            for ev in sorted(events):
                for _ in range(2):
                    try:
                        r = w.send(ev)
                        if inspect.isawaitable(r):
                            r.close()
                    except Exception:   # noqa: BLE001,S110 - only the side effects matter
                        pass
    except Exception:   # noqa: BLE001,S110
        pass
    finally:
        CUR.env = old


def build(m: M, name="M", strict=False, extra_ns=None, split=None, falsy=False) -> Built:
    """falsy: listener objects and the model are falsy (empty collection-like / __bool__ False):
    whether an object takes part as a provider must never depend on its truth value."""
    from statemachine import State, StateMachine
    from statemachine.factory import StateMachineMetaclass

    ns = {"_prov": "sm"}
    st = {}
    fns = {}

    deco = []    # (grouper-callable, name) applied after the owning object exists

    def flags_of(p, nm):
        return next((f for (pp, n, f) in m.provided if pp == p and n == nm), "")

    def inline(entries):
        out = []
        for e in entries:
            if e.startswith("%"):
                continue
            if e.startswith("@"):
                nm = e[1:]
                if nm not in fns:
                    fns[nm] = _mk_fn_async(nm) if "a" in flags_of("fn", nm) else _mk_fn_sync(nm)
                    # "x#2": a second, distinct callable that happens to have the same __name__
                    fns[nm].__name__ = nm.split("#")[0]
                out.append(fns[nm])
            else:
                out.append(e)
        return out or None

    def decorate(owner, group, entries):
        for e in entries:
            if e.startswith("%"):
                nm = e[1:]
                fn = _mk(nm, flags_of("dec", nm))
                # "x#2": a second decorated function that has the same name as the first one
                # (`@go.before` / `def _(self)` ... `@go.after` / `def _(self)`): it shadows the
                # first in the class namespace, both stay registered
                attr = nm.split("#")[0]
                fn.__name__ = attr
                ns[attr] = getattr(owner, group)(fn)

    for s in m.states:
        kw = {}
        if s.value is not None:
            kw["value"] = s.value
        if s.name is not None:
            kw["name"] = s.name
        st[s.id] = State(initial=s.initial, final=s.final, enter=inline(s.enter),
                         exit=inline(s.exit), **kw)
        ns[s.id] = st[s.id]
        decorate(st[s.id], "enter", s.enter)
        decorate(st[s.id], "exit", s.exit)
    tr_objs = []
    base_cls = None
    for ti, t in enumerate(m.trans):
        if split is not None and ti == split:
            # inheritance rendering: states, callbacks and the first `split` transitions live
            # in a base class; the remaining transitions are added by the subclass body on the
            # inherited State objects (`Base.a.to(Base.b, event=...)`)
            bns = dict(ns)
            for (p_, n_, f_) in m.provided:
                if p_ == "sm":
                    bns[n_] = _mk(n_, f_)
            base_cls = StateMachineMetaclass(name + "Base", (StateMachine,), bns)
            _warm_up(base_cls, {e for t_ in m.trans[:split] for e in t_.events})
            ns = {}
        ev = list(t.events) if len(t.events) != 1 else t.events[0]
        tl = st[t.src].to(
            st[t.dst], event=ev, internal=t.internal,
            cond=inline(t.cond), unless=inline(t.unless), validators=inline(t.validators),
            before=inline(t.before), on=inline(t.on), after=inline(t.after),
        )
        tr_objs.append(tl[0])
        for grp in ("cond", "unless", "validators", "before", "on", "after"):
            decorate(tl, grp, getattr(t, grp))
    per = {}
    for (p, n, f) in m.provided:
        per.setdefault(p, []).append((n, f))
    for (n, f) in per.get("sm", ()):
        ns[n] = _mk(n, f)
    if extra_ns:
        ns.update(extra_ns)
    if base_cls is not None:
        cls = StateMachineMetaclass(name, (base_cls,), ns)
    else:
        cls = StateMachineMetaclass(name, (StateMachine,), ns, strict_states=strict) \
            if strict else StateMachineMetaclass(name, (StateMachine,), ns)

    model_cls = None
    if "model" in per:
        mns = {"_prov": "model", "__init__": _model_init}
        if falsy:
            mns["__bool__"] = lambda self: False
        for (n, f) in per["model"]:
            mns[n] = _mk(n, f)
        model_cls = type("Mod", (), mns)
    listener_cls = {}
    for lab in set(p for p in per if p not in ("sm", "model", "fn")) | set(m.listeners):
        lns = {"_prov": lab}
        if falsy:
            lns["__len__"] = lambda self: 0
        for (n, f) in per.get(lab, ()):
            lns[n] = _mk(n, f)
        listener_cls[lab] = type(lab, (), lns)
    return Built(m, cls, tr_objs, fns, model_cls, listener_cls)


def _model_init(self):
    self.state = None

"""Thread schedule explorer: real OS threads under a baton, scheduling points at every source
line of the library's dispatch code (sys.settrace), preemption-bounded (CHESS-style).

Exactly one thread runs at any time (a Semaphore per thread is the baton).  At every `line`
event inside the traced files, at every operation of the scheduler-aware lock and at every
explicit yield the running thread asks the chooser who runs next; option 0 = keep running,
any other option costs one preemption.  When the running thread finishes or blocks the hand-off
is free.  No enabled thread while some thread is unfinished = deadlock.
"""

import os
import sys
import threading

ACTIVE = None
_local = threading.local()


def traced_files(repo, thorough=False):
    base = os.path.join(os.path.realpath(repo), "statemachine")
    names = ["engines/sync.py", "engines/base.py", "event.py", "statemachine.py"]
    if thorough:
        names += ["callbacks.py", "engines/async_.py"]
    return {os.path.join(base, n) for n in names}


SHARED_PATTERNS = ("_external_queue", "_processing.", "self._processing")


def shared_access_lines(files):
    """(file, line) pairs of the traced files whose source text touches state shared between
    senders (the event queue and the processing lock/flag).  Scheduling only there is a
    partial-order reduction: every other line of the dispatch code works on thread-local data, so
    pre-empting there cannot produce a new outcome.  New shared variables introduced by a change
    are *not* known to this filter - the line-granular bounded exploration covers those."""
    out = set()
    for f in files:
        try:
            with open(f) as fh:
                for i, ln in enumerate(fh, 1):
                    code = ln.split("#", 1)[0]
                    if any(pat in code for pat in SHARED_PATTERNS):
                        out.add((f, i))
        except OSError:
            pass
    return out


class Deadlock(Exception):
    pass


class SchedLock:
    """Drop-in for threading.Lock inside the library while an exploration runs."""

    def __init__(self):
        self._held = False

    def acquire(self, blocking=True, timeout=-1):
        s = ACTIVE
        tid = getattr(_local, "tid", None)
        if s is not None and tid is not None:
            s.point(tid, "lock.acquire")
        while self._held:
            if not blocking:
                return False
            if s is None or tid is None:
                raise RuntimeError("blocking acquire outside the scheduler would hang")
            s.block(tid, self)
        self._held = True
        return True

    def release(self):
        if not self._held:
            raise RuntimeError("release unlocked lock")
        self._held = False
        s = ACTIVE
        if s is not None:
            s.wake(self)
            tid = getattr(_local, "tid", None)
            if tid is not None:
                s.point(tid, "lock.release")

    def locked(self):
        return self._held

    def __enter__(self):
        self.acquire()
        return self

    def __exit__(self, *a):
        self.release()


class Sched:
    def __init__(self, chooser, files, max_points=60000, only_lines=None, state_fn=None):
        self.chooser = chooser
        self.files = files
        self.state_fn = state_fn          # () -> hashable abstraction of the shared state
        self.thread_ids = {}              # tid -> OS thread ident
        self.only_lines = only_lines      # None: every line of `files`; else a set of (file, line)
        self.max_points = max_points
        self.npoints = 0
        self.sems = []
        self.state = []          # ready | blocked | done
        self.blocked_on = {}
        self.errors = []         # (tid, exception)
        self.main = threading.Semaphore(0)
        self.deadlock = None
        self.switches = 0

    # -- called by the running thread ----------------------------------------------------
    def point(self, tid, what="line"):
        if getattr(_local, "in_point", False):
            # the scheduler's own bookkeeping (the harness's state function reads properties of
            # the machine, which live in traced files) must not open nested scheduling points
            return
        _local.in_point = True
        try:
            self._point(tid, what)
        finally:
            _local.in_point = False

    def _point(self, tid, what):
        self.npoints += 1
        if self.npoints > self.max_points:
            raise Deadlock("point budget exhausted (livelock?)")
        others = [t for t in range(len(self.state)) if t != tid and self.state[t] == "ready"]
        if not others:
            return
        opts = [tid] + others
        st = self.global_state(tid) if self.state_fn is not None else None
        c = self.chooser.choose(opts, altcost=1, state=st)
        if c:
            tgt = opts[c]
            self.switches += 1
            self.sems[tgt].release()
            self.sems[tid].acquire()

    # -- explicit state ---------------------------------------------------------------------
    def global_state(self, running):
        """Canonical global state: who runs, every thread's position (frames inside the traced
        files with their simple locals) and the harness-supplied shared state."""
        frames = sys._current_frames()
        per = []
        for t in range(len(self.state)):
            if self.state[t] == "done":
                per.append("done")
                continue
            f = frames.get(self.thread_ids.get(t))
            stack = []
            while f is not None:
                if f.f_code.co_filename in self.files:
                    stack.append((f.f_code.co_name, f.f_lineno, _abstract_locals(f.f_locals)))
                f = f.f_back
            per.append((self.state[t], tuple(reversed(stack))))
        return hash((running, tuple(per), self.state_fn()))

    def block(self, tid, lock):
        self.state[tid] = "blocked"
        self.blocked_on[tid] = lock
        self._handoff(tid)
        self.sems[tid].acquire()

    def wake(self, lock):
        for t, lk in list(self.blocked_on.items()):
            if lk is lock:
                del self.blocked_on[t]
                self.state[t] = "ready"

    def _handoff(self, tid):
        ready = [t for t in range(len(self.state)) if self.state[t] == "ready"]
        if ready:
            c = self.chooser.choose(ready, altcost=0)
            self.sems[ready[c]].release()
            return
        if all(s == "done" for s in self.state):
            self.main.release()
            return
        self.deadlock = f"deadlock: threads {[t for t, s in enumerate(self.state) if s == 'blocked']} blocked, none runnable"
        # release everybody so the execution can be torn down
        for t, s in enumerate(self.state):
            if s == "blocked":
                self.state[t] = "ready"
        self.main.release()

    # -- driver -----------------------------------------------------------------------------
    def _tracer(self, tid):
        files = self.files

        only = self.only_lines

        def loc(frame, event, arg):
            if event == "line":
                if only is None or (frame.f_code.co_filename, frame.f_lineno) in only:
                    self.point(tid)
            return loc

        def glob(frame, event, arg):
            if frame.f_code.co_filename in files:
                return loc
            return None
        return glob

    def _body(self, tid, fn):
        self.thread_ids[tid] = threading.get_ident()
        self._started.release()
        self.sems[tid].acquire()
        _local.tid = tid
        sys.settrace(self._tracer(tid))
        try:
            fn()
        except BaseException as e:    # noqa: BLE001 - reported by the harness
            self.errors.append((tid, e))
        finally:
            sys.settrace(None)
            _local.tid = None
            self.state[tid] = "done"
            if self.deadlock is None:
                self._handoff(tid)

    def run(self, bodies, timeout=20):
        global ACTIVE
        n = len(bodies)
        self.sems = [threading.Semaphore(0) for _ in range(n)]
        self.state = ["ready"] * n
        threads = [threading.Thread(target=self._body, args=(i, fn), daemon=True)
                   for i, fn in enumerate(bodies)]
        ACTIVE = self
        try:
            self._started = threading.Semaphore(0)
            for t in threads:
                t.start()
            for _ in threads:
                self._started.acquire()       # every thread has registered its ident
            first = self.chooser.choose(list(range(n)), altcost=0)
            self.sems[first].release()
            if not self.main.acquire(timeout=timeout):
                self.deadlock = self.deadlock or "hang: execution did not finish within the timeout"
            if self.deadlock:
                # let stuck threads run out (they are daemons; release their batons)
                for s in self.sems:
                    s.release()
                    s.release()
            for t in threads:
                t.join(2)
        finally:
            ACTIVE = None
        return self


def _abstract_locals(loc):
    out = []
    for k in sorted(loc):
        if k in ("self", "cls", "args", "kwargs"):
            continue
        v = loc[k]
        if v is None or isinstance(v, (bool, int, str)):
            out.append((k, v))
        elif hasattr(v, "kwargs") and hasattr(v, "event"):       # TriggerData
            out.append((k, "TD", str(v.event), v.kwargs.get("tag")))
        elif isinstance(v, (list, tuple)):
            out.append((k, type(v).__name__, len(v)))
        else:
            out.append((k, type(v).__name__))
    return tuple(out)


def yield_point():
    """Explicit scheduling point for harness callbacks."""
    s = ACTIVE
    tid = getattr(_local, "tid", None)
    if s is not None and tid is not None:
        s.point(tid, "yield")


class patched_lock:
    """Context manager: the library's engines create SchedLock instead of threading.Lock."""

    def __enter__(self):
        import statemachine.engines.base as b
        self.b = b
        self.old = getattr(b, "Lock", None)
        b.Lock = SchedLock
        return self

    def __exit__(self, *a):
        if self.old is not None:
            self.b.Lock = self.old

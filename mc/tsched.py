"""Thread schedule explorer: real OS threads under a baton, scheduling points at every source
line of the library's dispatch code (sys.settrace), preemption-bounded (CHESS-style).

Exactly one thread runs at any time (a Semaphore per thread is the baton).  At every `line`
event inside the traced files, at every operation of the scheduler-aware lock and at every
explicit yield the running thread asks the chooser who runs next; option 0 = keep running,
any other option costs one preemption.  When the running thread finishes or blocks the hand-off
is free.  No enabled thread while some thread is unfinished = deadlock.
"""

import os
import sys
import threading

ACTIVE = None
_local = threading.local()


def traced_files(repo, thorough=False):
    base = os.path.join(os.path.realpath(repo), "statemachine")
    names = ["engines/sync.py", "engines/base.py", "event.py", "statemachine.py"]
    if thorough:
        names += ["callbacks.py", "engines/async_.py"]
    return {os.path.join(base, n) for n in names}


class Deadlock(Exception):
    pass


class SchedLock:
    """Drop-in for threading.Lock inside the library while an exploration runs."""

    def __init__(self):
        self._held = False

    def acquire(self, blocking=True, timeout=-1):
        s = ACTIVE
        tid = getattr(_local, "tid", None)
        if s is not None and tid is not None:
            s.point(tid, "lock.acquire")
        while self._held:
            if not blocking:
                return False
            if s is None or tid is None:
                raise RuntimeError("blocking acquire outside the scheduler would hang")
            s.block(tid, self)
        self._held = True
        return True

    def release(self):
        if not self._held:
            raise RuntimeError("release unlocked lock")
        self._held = False
        s = ACTIVE
        if s is not None:
            s.wake(self)
            tid = getattr(_local, "tid", None)
            if tid is not None:
                s.point(tid, "lock.release")

    def locked(self):
        return self._held

    def __enter__(self):
        self.acquire()
        return self

    def __exit__(self, *a):
        self.release()


class Sched:
    def __init__(self, chooser, files, max_points=60000):
        self.chooser = chooser
        self.files = files
        self.max_points = max_points
        self.npoints = 0
        self.sems = []
        self.state = []          # ready | blocked | done
        self.blocked_on = {}
        self.errors = []         # (tid, exception)
        self.main = threading.Semaphore(0)
        self.deadlock = None
        self.switches = 0

    # -- called by the running thread ----------------------------------------------------
    def point(self, tid, what="line"):
        self.npoints += 1
        if self.npoints > self.max_points:
            raise Deadlock("point budget exhausted (livelock?)")
        others = [t for t in range(len(self.state)) if t != tid and self.state[t] == "ready"]
        if not others:
            return
        opts = [tid] + others
        c = self.chooser.choose(opts, altcost=1)
        if c:
            tgt = opts[c]
            self.switches += 1
            self.sems[tgt].release()
            self.sems[tid].acquire()

    def block(self, tid, lock):
        self.state[tid] = "blocked"
        self.blocked_on[tid] = lock
        self._handoff(tid)
        self.sems[tid].acquire()

    def wake(self, lock):
        for t, lk in list(self.blocked_on.items()):
            if lk is lock:
                del self.blocked_on[t]
                self.state[t] = "ready"

    def _handoff(self, tid):
        ready = [t for t in range(len(self.state)) if self.state[t] == "ready"]
        if ready:
            c = self.chooser.choose(ready, altcost=0)
            self.sems[ready[c]].release()
            return
        if all(s == "done" for s in self.state):
            self.main.release()
            return
        self.deadlock = f"deadlock: threads {[t for t, s in enumerate(self.state) if s == 'blocked']} blocked, none runnable"
        # release everybody so the execution can be torn down
        for t, s in enumerate(self.state):
            if s == "blocked":
                self.state[t] = "ready"
        self.main.release()

    # -- driver -----------------------------------------------------------------------------
    def _tracer(self, tid):
        files = self.files

        def loc(frame, event, arg):
            if event == "line":
                self.point(tid)
            return loc

        def glob(frame, event, arg):
            if frame.f_code.co_filename in files:
                return loc
            return None
        return glob

    def _body(self, tid, fn):
        self.sems[tid].acquire()
        _local.tid = tid
        sys.settrace(self._tracer(tid))
        try:
            fn()
        except BaseException as e:    # noqa: BLE001 - reported by the harness
            self.errors.append((tid, e))
        finally:
            sys.settrace(None)
            _local.tid = None
            self.state[tid] = "done"
            if self.deadlock is None:
                self._handoff(tid)

    def run(self, bodies, timeout=20):
        global ACTIVE
        n = len(bodies)
        self.sems = [threading.Semaphore(0) for _ in range(n)]
        self.state = ["ready"] * n
        threads = [threading.Thread(target=self._body, args=(i, fn), daemon=True)
                   for i, fn in enumerate(bodies)]
        ACTIVE = self
        try:
            for t in threads:
                t.start()
            first = self.chooser.choose(list(range(n)), altcost=0)
            self.sems[first].release()
            if not self.main.acquire(timeout=timeout):
                self.deadlock = self.deadlock or "hang: execution did not finish within the timeout"
            if self.deadlock:
                # let stuck threads run out (they are daemons; release their batons)
                for s in self.sems:
                    s.release()
                    s.release()
            for t in threads:
                t.join(2)
        finally:
            ACTIVE = None
        return self


def yield_point():
    """Explicit scheduling point for harness callbacks."""
    s = ACTIVE
    tid = getattr(_local, "tid", None)
    if s is not None and tid is not None:
        s.point(tid, "yield")


class patched_lock:
    """Context manager: the library's engines create SchedLock instead of threading.Lock."""

    def __enter__(self):
        import statemachine.engines.base as b
        self.b = b
        self.old = getattr(b, "Lock", None)
        b.Lock = SchedLock
        return self

    def __exit__(self, *a):
        if self.old is not None:
            self.b.Lock = self.old

"""C17 - deepcopy / pickle clones are equivalent and independent.

Machines (importable classes, see mc/copy_machines.py) with custom public and private
attributes, a custom model with a mutable payload, a listener, non-default options (rtc,
allow_event_without_transition, state_field, start_value), on the sync and the async engine
(incl. a machine whose only coroutine callbacks live on its listener/model).  Copy point: every
prefix of every history up to length L, including *before activation* of an async machine;
mechanism: copy.deepcopy and a pickle round-trip; a copy of the copy as well.  Afterwards every
pair of suffixes up to length 2 is driven on original and clone in both orders.
Oracle: at the copy point the clone has the original's stored state, options, listener set and
custom attributes (equal, not identical); from then on each follows the reference independently:
driving one leaves the other's store, model payload, listener and custom attributes untouched.
"""

import copy
import itertools
import pickle

from ..copy_machines import (CopyListener, CopyListenerAsync, CopyListenerEq,
                             CopyListenerFalsy, CopyModel,
                             CopyModelAsync, built_for)
from ..drive import Pair
from ..env import CUR, Env
from ..par import BlockResult, Hang, deadline, run_blocks
from ..ref import Cfg, Ref
from ..report import Report

PID = "C17"

# (label, machine kind, cfg, state_field, start_value index, model async?, listener async?)
CONFIGS = [
    ("sync-default", "sync", Cfg("sync", True, False, "direct"), "state", None, False, False),
    ("sync-nonrtc-tolerant", "sync", Cfg("sync", False, True, "direct"), "state", None, False, False),
    ("sync-field-start", "sync", Cfg("sync", True, True, "status", ), "status", 1, False, False),
    ("async-facade", "async", Cfg("async", True, False, "facade"), "state", None, False, False),
    ("async-tolerant-field", "async", Cfg("async", True, True, "facade"), "status", 2, False, False),
    ("plain+async-listener", "plain", Cfg("async", True, False, "facade"), "state", None, False, True),
    ("plain+async-model", "plain", Cfg("async", True, True, "facade"), "state", None, True, False),
    ("listener-only-action", "lis", Cfg("sync", True, False, "direct"), "state", None, False, False),
    ("listener-only-action-async", "lis", Cfg("async", True, False, "facade"), "state", None, False, True),
    ("two-equal-listeners", "sync", Cfg("sync", True, False, "direct"), "state", None, False, "eq2"),
    ("falsy-listener", "lis", Cfg("sync", True, False, "direct"), "state", None, False, "falsy"),
    ("falsy-listener-tolerant", "sync", Cfg("sync", True, True, "direct"), "status", 1, False, "falsy"),
    # the events are bound onto the model (bind_events_to) and fired through the model: the
    # clone's model must drive the clone
    ("events-bound-to-model", "sync", Cfg("sync", True, False, "direct"), "state", None, False, False),
    ("events-bound-to-model-async", "async", Cfg("async", True, False, "facade"), "state", None, False, False),
]
VALUES = ("s0", 0, "")
MECHS = ("deepcopy", "pickle", "deepcopy-of-deepcopy", "pickle-of-deepcopy",
         # the model owns its machine (model.owner = sm, the MachineMixin shape) and it is the
         # model that is copied: the machine is reached through it
         "deepcopy-via-model", "pickle-via-model",
         # the stored value was wiped behind the machine's back (model.state = None) before the
         # copy: the clone is as unusable as the original, it does not start over
         "deepcopy-wiped", "pickle-wiped")


def clone_of(sm, mech):
    if mech == "deepcopy":
        return copy.deepcopy(sm)
    if mech == "pickle":
        return pickle.loads(pickle.dumps(sm))
    if mech == "deepcopy-of-deepcopy":
        return copy.deepcopy(copy.deepcopy(sm))
    if mech == "deepcopy-wiped":
        return copy.deepcopy(sm)
    if mech == "pickle-wiped":
        return pickle.loads(pickle.dumps(sm))
    if mech == "deepcopy-via-model":
        return copy.deepcopy(sm.model).owner
    if mech == "pickle-via-model":
        return pickle.loads(pickle.dumps(sm.model)).owner
    return pickle.loads(pickle.dumps(copy.deepcopy(sm)))


def make_pair(ci):
    (label, kind, cfg, field, svi, masync, lasync) = CONFIGS[ci]
    built = built_for(kind)
    model = (CopyModelAsync if masync else CopyModel)(field)
    if lasync == "eq2":
        # two distinct listeners that compare equal: both are attached, both must be cloned
        import dataclasses
        from ..spec import Built
        l1, l2 = CopyListenerEq(), CopyListenerEq()
        l2._prov = "L2"
        m = built.m
        m = dataclasses.replace(m, listeners=("L1", "L2"), provided=m.provided + tuple(
            ("L2", n, f) for (p_, n, f) in m.provided if p_ == "L1"))
        built = Built(m, built.cls, built.tr_objs, {}, None, {})
        listeners = [l1, l2]
    elif lasync == "falsy":
        listeners = [CopyListenerFalsy()]
    else:
        listeners = [(CopyListenerAsync if lasync else CopyListener)()]
    sv = None if svi is None else VALUES[svi]
    p = Pair(built, cfg, start_value=sv, model=model, state_field=field, listeners=listeners)
    return p


def bookkeeping(sm):
    """The model keeps State objects in hashed containers (a set of visited states, a dict keyed
    by state), as a listener that records the `source` / `target` it is handed would: equal
    states must keep finding each other there, in the original and in a clone."""
    mod = sm.model
    visited = getattr(mod, "visited", None)
    if visited is None:
        return None
    out = []
    for st in sm.states:
        out.append((st.id, st in visited, mod.by_state.get(st, "<missing>")))
    cur = sm.current_state
    out.append(("current", cur in visited, mod.by_state.get(cur, "<missing>")))
    return repr(out)


def snapshot(sm, field):
    mod = sm.model
    lis = list(sm._listeners)
    return {
        "bookkeeping": bookkeeping(sm),
        "value": repr(getattr(mod, field, None)),
        "payload": repr(getattr(mod, "payload", None)),
        "custom": repr(getattr(sm, "custom", "<missing>")),
        "secret": repr(getattr(sm, "_secret", "<missing>")),
        "listener_seen": repr([getattr(x, "seen", None) for x in lis]),
        "n_listeners": len(lis),
    }


def options(sm):
    return {"allow": sm.allow_event_without_transition,
            "rtc": getattr(getattr(sm, "_engine", None), "_rtc", None),
            "state_field": sm.state_field, "start_value": sm.start_value,
            "engine": type(getattr(sm, "_engine", None)).__name__}


def run_case(ci, hist, cut, mech, suf_o, suf_c, order):
    """hist: events; cut: copy after `cut` events (async: -1 = before activation);
    suf_o / suf_c: suffixes for original and clone; order: 'oc' or 'co'."""
    (label, kind, cfg, field, svi, masync, lasync) = CONFIGS[ci]
    p = make_pair(ci)
    steps = 0
    msg = p.construct()
    if msg:
        return f"construct: {msg}", steps
    style = "send"
    if label.startswith("events-bound-to-model"):
        p.impl.sm.bind_events_to(p.impl.sm.model)
        style = "mixin"          # getattr(sm.model, event)(...)
    n = 0
    vals = {"g1": True}
    for ev in hist[:max(cut, 0)]:
        n += 1
        vals = {"g1": (n % 2 == 1)}
        msg = p.send(ev, vals, tag=f"h{n}", style=style)
        steps += 1
        if msg:
            return f"history {ev}: {msg}", steps
    # ---- copy ----
    sm = p.impl.sm
    if mech.endswith("-via-model"):
        sm.model.owner = sm
    if sm.current_state_value is not None and len(hist) % 2 == 0:
        # class-level State objects: what callbacks are handed as `source` / `target`
        cstates = list(type(sm).states)
        sm.model.visited = {st for st in cstates if st.id != "s2"} | \
            {type(sm).states_map[sm.current_state_value]}
        sm.model.by_state = {st: st.id for st in cstates}
    wiped = mech.endswith("-wiped")
    if wiped:
        if sm.current_state_value is None:
            return None, steps          # (not activated yet: nothing to wipe)
        setattr(sm.model, field, None)
    env = p.impl.env
    env.top, env.stack, env.flat = [], [], []
    CUR.env = env          # a callback run by the copy itself is recorded, not lost
    try:
        csm = clone_of(sm, mech)
    except Exception as e:   # noqa: BLE001
        return f"{mech} raised {type(e).__name__}: {e}", steps
    finally:
        CUR.env = None
    if env.flat:
        return (f"taking the copy ({mech}) ran callbacks: "
                f"{[r.brief() for r in env.flat][:4]}"), steps
    steps += 1
    if wiped:
        from statemachine.exceptions import InvalidStateValue
        for who, m_ in (("original", sm), ("clone", csm)):
            try:
                got = m_.current_state.id
            except InvalidStateValue:
                continue
            return (f"the stored value was wiped before the copy: the {who} reports the current "
                    f"state {got!r} instead of raising InvalidStateValue"), steps
        if getattr(csm.model, field, "<missing>") is not None:
            return f"the clone's model holds {getattr(csm.model, field)!r} after a wiped copy", steps
        return None, steps
    if csm is sm:
        return "the copy is the same object", steps
    if options(csm) != options(sm):
        return f"clone options {options(csm)} differ from the original's {options(sm)}", steps
    so, sc = snapshot(sm, field), snapshot(csm, field)
    if so != sc:
        return f"clone differs at the copy point: original {so} clone {sc}", steps
    if csm.model is sm.model:
        return "clone shares the model object with the original", steps
    if any(a is b for a in csm._listeners for b in sm._listeners):
        return "clone shares a listener object with the original", steps
    if getattr(csm, "custom", None) is getattr(sm, "custom", 0):
        return "clone shares the mutable custom attribute with the original", steps
    if getattr(csm.model, "payload", None) is getattr(sm.model, "payload", 0):
        return "clone's model shares its payload with the original's", steps
    # ---- the clone gets its own Pair (reference state copied by value) ----
    q = Pair(p.built, cfg, start_value=p.impl.start_value, model=csm.model, state_field=field,
             listeners=list(csm._listeners))
    q.impl.sm = csm
    q.ref.value = p.ref.value
    q.ref.queue = type(p.ref.queue)(p.ref.queue)
    q.ref.activated = p.ref.activated
    pairs = {"o": (p, suf_o), "c": (q, suf_c)}
    for who in order:
        pr, suf = pairs[who]
        other = pairs["c" if who == "o" else "o"][0]
        before = snapshot(other.impl.sm, field)
        for ev in suf:
            n += 1
            hits_before = len(pr.impl.sm.hits)
            msg = pr.send(ev, {"g1": (n % 2 == 0)}, tag=f"{who}{n}", style=style)
            steps += 1
            if msg:
                return f"{'original' if who == 'o' else 'clone'} suffix {ev}: {msg}", steps
            # the per-instance hook (an attribute set before StateMachine.__init__) runs whenever
            # s2 is entered - on the original and on the clone alike
            entered = sum(1 for r in pr.impl.env.flat
                          if r.cid == ("sm", "on_enter_state") and r.target == "s2")
            if len(pr.impl.sm.hits) - hits_before != entered:
                return (f"{'original' if who == 'o' else 'clone'} suffix {ev}: s2 was entered "
                        f"{entered} time(s) but the instance-level hook on_enter_s2 ran "
                        f"{len(pr.impl.sm.hits) - hits_before} time(s)"), steps
            msg = pr.check_views()
            if msg:
                return f"{'original' if who == 'o' else 'clone'} after {ev}: {msg}", steps
        # mutate the driven side's custom data: must not leak either
        pr.impl.sm.custom["list"].append(who)
        pr.impl.sm.model.payload["n"].append(who)
        after = snapshot(other.impl.sm, field)
        if before != after:
            return (f"driving the {'original' if who == 'o' else 'clone'} changed the other: "
                    f"{before} -> {after}"), steps
    return None, steps


def property_guard_probe(res):
    """A guard given as a property object of a listener class, with a second listener of that
    class attached at construction or later: whatever the original consults, its clone consults
    the same (differential oracle: original vs clone, every valuation)."""
    from ..copy_machines import PropDoor, PropLock
    for mech in ("deepcopy", "pickle", "deepcopy-of-deepcopy"):
        for second in ("none", "constructor", "late"):
            for v1 in (True, False):
                for v2 in (True, False):
                    locks = [PropLock(v1)] + ([PropLock(v2)] if second == "constructor" else [])
                    sm = PropDoor(listeners=locks)
                    if second == "late":
                        sm.add_listener(PropLock(v2))
                    res.stats["evaluations"] += 1
                    res.stats["states"] += 1
                    res.hist["property-guard-probe"] += 1
                    try:
                        clone = clone_of(sm, mech)
                    except Exception as e:   # noqa: BLE001
                        res.violation({"category": "property-guard-clone", "mech": mech},
                                      {"prop_guard": [mech, second, v1, v2]},
                                      f"{mech} raised {type(e).__name__}: {e}")
                        continue
                    out = []
                    for m_ in (sm, clone):
                        try:
                            m_.send("open")
                            out.append(m_.current_state.id)
                        except m_.TransitionNotAllowed:
                            out.append("refused")
                    if out[0] != out[1]:
                        res.violation({"category": "property-guard-clone", "mech": mech},
                                      {"prop_guard": [mech, second, v1, v2]},
                                      f"guard given as the property object PropLock.is_unlocked, "
                                      f"first lock {v1}, second lock ({second}) {v2}: the original "
                                      f"answers {out[0]!r}, its {mech} clone {out[1]!r}")


def cases(tier):
    L = 2 if tier == "quick" else 3
    out = []
    sufs = [()] + [(e,) for e in "ab"] + ([("a", "a"), ("a", "b"), ("b", "a")] if True else [])
    for ci in range(len(CONFIGS)):
        asyn = CONFIGS[ci][2].engine == "async"
        for hl in range(0, L + 1):
            for hist in itertools.product("ab", repeat=hl):
                cuts = [hl] if hl else ([-1, 0] if asyn else [0])
                for cut in cuts:
                    if cut == 0 and hl:
                        continue
                    for mech in MECHS:
                        if tier == "quick" and mech.endswith("-of-deepcopy") and hl > 1:
                            continue
                        for so in sufs:
                            for sc in sufs:
                                if not so and not sc:
                                    continue
                                if tier == "quick" and len(so) + len(sc) > 3:
                                    continue
                                for order in ("oc", "co"):
                                    out.append((ci, hist, cut, mech, so, sc, order))
    return out


def worker(block):
    tier, lo, hi = block
    res = BlockResult()
    if lo == 0:
        property_guard_probe(res)
    for (ci, hist, cut, mech, so, sc, order) in cases(tier)[lo:hi]:
        scj = {"config": CONFIGS[ci][0], "ci": ci, "history": list(hist), "cut": cut, "mech": mech,
               "suffix_original": list(so), "suffix_clone": list(sc), "order": order}
        res.stats["evaluations"] += 1
        try:
            with deadline(30):
                msg, steps = run_case(ci, hist, cut, mech, so, sc, order)
        except Hang:
            msg, steps = "case hung", 0
        res.stats["states"] += 1
        res.stats["transitions"] += steps
        res.hist[f"{CONFIGS[ci][0]}/{mech}"] += 1
        if msg:
            res.violation({"category": _cat(msg), "config": CONFIGS[ci][0],
                           "before_activation": cut == -1}, scj, msg)
        elif len(res.samples) < 1 and len(hist) == 2 and so and sc:
            res.samples.append(scj)
    return res


def _cat(msg):
    for key in ("instance-level hook", "ran callbacks", "raised", "options", "differs at the copy point", "shares", "changed the other",
                "stored state", "trace", "exception", "outcome kind", "result", "hung",
                "current_state", "allowed_events", "dirty"):
        if key in msg:
            return key
    return "other"


def run(tier, seed):
    rep = Report(PID, tier, seed)
    n = len(cases(tier))
    step = 300
    blocks = [(tier, i, min(i + step, n)) for i in range(0, n, step)]
    total, capped = run_blocks(worker, blocks, seed=seed)
    rep.add_violations(total.violations, total.hist_sig)
    rep.harness_errors = total.stats.get("harness_errors", 0)
    rep.notes.extend(total.notes)
    rep.coverage = {
        "states": total.stats["states"],
        "transitions": total.stats["transitions"],
        "traces_validated_against_impl": total.stats["states"],
        "cases": n, "configs": [c[0] for c in CONFIGS], "mechanisms": list(MECHS),
        "outcome_histogram": dict(total.hist),
        "samples": total.samples or [{"note": "no sample"}],
        "rule": "states = complete cases (config x history x copy point x mechanism x suffix pair x "
                "order); transitions = operations compared with the reference / independence "
                "snapshots",
        "violations_total": total.stats.get("violations_total", 0),
        "violations_by_signature": total.hist_sig,
    }
    rep.assumptions = ["reference semantics mc/ref.py; snapshot = stored value, model payload, "
                       "custom public/private attributes, listener state, listener count"]
    return rep.finish(exhaustive=not capped)


def replay(sc):
    if "prop_guard" in sc:
        res = BlockResult()
        property_guard_probe(res)
        for v in res.violations:
            if v["scenario"] == sc:
                return v["message"]
        return None
    msg, _ = run_case(sc["ci"], tuple(sc["history"]), sc["cut"], sc["mech"],
                      tuple(sc["suffix_original"]), tuple(sc["suffix_clone"]), sc["order"])
    return msg

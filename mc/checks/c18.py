"""C18 - the generated diagram is a faithful picture of the machine.

Machines: every validation-accepted directed graph on n <= 3 states (thorough: n = 4 with <= 6
edges) decorated in four ways (plain; parallel guarded edges with cond/unless and a second event;
self-loops declared internal, with and without enter/exit actions on the state; multi-event
transitions), with typed state values including falsy ones.  For the class and for an instance in
every reachable current state the pydot graph returned by DotGraphMachine(x)() / sm._graph() is
compared with a reference graph: node set = states + initial pseudo-node, one pseudo-edge to the
initial state, edge multiset = (source, target, events, guards) of the external transitions,
internal transitions only inside their state's label, double border iff final, highlight
attributes on exactly the current state of an instance and on no state of a class.
"""

import itertools
import warnings
from collections import Counter

from ..par import BlockResult, Hang, deadline, run_blocks
from ..report import Report
from .c09 import oracle, pairs

PID = "C18"
VALUES = (None, 0, "")
DECOS = ("plain", "guarded-parallel", "internal", "internal-actions", "multi-event",
         "event-objects", "attribute-events", "property-guards", "any-guarded")


def strip(x):
    x = str(x)
    return x[1:-1] if len(x) >= 2 and x[0] == '"' and x[-1] == '"' else x


IDSETS = {"s": ("s0", "s1", "s2", "s3"), "i": ("i", "j", "k", "l")}


def make(n, edges, init, finals, deco, asyn=False, ids="s"):
    """Returns (cls, expected) where expected describes the reference graph."""
    from statemachine import State, StateMachine
    from statemachine.factory import StateMachineMetaclass
    ns = {}
    st = []
    SID = IDSETS[ids]
    for i in range(n):
        kw = {}
        if VALUES[i % 3] is not None:
            kw["value"] = VALUES[i % 3]
        if deco == "internal-actions" and i % 2 == 0:
            kw["enter"] = "ent"
            kw["exit"] = "ext"
        st.append(State(name=f"State {i}", initial=(i == init), final=(i in finals), **kw))
        ns[IDSETS[ids][i]] = st[-1]
    exp_edges = Counter()
    internal = {i: [] for i in range(n)}
    if deco == "event-objects":
        # events declared first as Event objects without id (named by their class attribute
        # later) and handed to the transitions through event=
        from statemachine import Event
        ns["e"] = Event(name="First event")
        ns["f"] = Event(name="Second event")
    for k, (a, b) in enumerate(sorted(edges)):
        if deco == "plain":
            st[a].to(st[b], event="e")
            exp_edges[(SID[a], SID[b], "e", "")] += 1
        elif deco == "guarded-parallel":
            st[a].to(st[b], event="e", cond="g1")
            st[a].to(st[b], event="f", unless=["g2", "g1"])
            st[a].to(st[b], event="e", cond=["g1", "g2"], unless="g3")
            exp_edges[(SID[a], SID[b], "e", "g1")] += 1
            exp_edges[(SID[a], SID[b], "f", "!g2, !g1")] += 1
            exp_edges[(SID[a], SID[b], "e", "g1, g2, !g3")] += 1
        elif deco in ("internal", "internal-actions"):
            if a == b:
                # (every second internal transition has no action of its own: an event that
                # is accepted and deliberately ignored is part of the machine all the same)
                st[a].to(st[b], event=f"i{k}", internal=True, **({"on": "act"} if k % 2 else {}))
                internal[a].append(f"i{k}")
                # keep the state non-trapping for validation purposes: also an external loop
                st[a].to(st[b], event="e")
                exp_edges[(SID[a], SID[b], "e", "")] += 1
            else:
                st[a].to(st[b], event="e")
                exp_edges[(SID[a], SID[b], "e", "")] += 1
        elif deco == "event-objects":
            st[a].to(st[b], event=[ns["e"], ns["f"]] if k % 2 else ns["e"])
            exp_edges[(SID[a], SID[b], "e f" if k % 2 else "e", "")] += 1
        elif deco == "property-guards":
            # guards given as property objects of the class, passed by reference
            if "ready" not in ns:
                def ready(self):
                    return True

                def locked(self):
                    return False
                ns["ready"], ns["locked"] = property(ready), property(locked)
            st[a].to(st[b], event="e", cond=ns["ready"], unless=ns["locked"])
            exp_edges[(SID[a], SID[b], "e", "ready, !locked")] += 1
        elif deco == "attribute-events":
            # events named by the class attribute their transitions are assigned to; every
            # second edge shares its attribute with the previous one (`|`)
            if k % 2 and f"ev{k - 1}" in ns:
                ns[f"ev{k - 1}"] = ns[f"ev{k - 1}"] | st[a].to(st[b])
                exp_edges[(SID[a], SID[b], f"ev{k - 1}", "")] += 1
            else:
                ns[f"ev{k}"] = st[a].to(st[b])
                exp_edges[(SID[a], SID[b], f"ev{k}", "")] += 1
        elif deco == "any-guarded":
            st[a].to(st[b], event="e")
            exp_edges[(SID[a], SID[b], "e", "")] += 1
        elif deco == "multi-event":
            st[a].to(st[b], event=["e", "f"] if k % 2 else "e f g")
            exp_edges[(SID[a], SID[b], "e f" if k % 2 else "e f g", "")] += 1
    if deco == "any-guarded":
        # one guarded event out of every non-final state, declared with from_.any()
        t = (init + 1) % n
        ns["anyev"] = st[t].from_.any(cond="g1", unless=["g2", "g3"])
        for a in range(n):
            if a not in finals:
                exp_edges[(SID[a], SID[t], "anyev", "g1, !g2, !g3")] += 1
    for nm in ("g1", "g2", "g3"):
        ns[nm] = True
    if asyn:
        async def act(self):
            return None
    else:
        def act(self):
            return None
    ns["act"] = act
    ns["ent"] = lambda self: None
    ns["ext"] = lambda self: None
    with warnings.catch_warnings():
        warnings.simplefilter("ignore")
        cls = StateMachineMetaclass("D", (StateMachine,), ns)
    exp = {"nodes": {SID[i] for i in range(n)}, "edges": exp_edges,
           "internal": {SID[i]: v for i, v in internal.items()},
           "finals": {SID[i] for i in finals}, "initial": SID[init],
           "names": {SID[i]: f"State {i}" for i in range(n)}}
    return cls, exp


def reachable(n, edges, init):
    succ = {i: set() for i in range(n)}
    for a, b in edges:
        succ[a].add(b)
    seen, todo = set(), [init]
    while todo:
        s = todo.pop()
        if s not in seen:
            seen.add(s)
            todo.extend(succ[s])
    return sorted(seen)


def check_graph(graph, exp, current):
    """current: None for a class, else the id of the current state."""
    nodes = {}
    names = [strip(nd.get_name()) for nd in graph.get_nodes()]
    pseudo = [nm for nm in names if nm not in exp["nodes"]]
    for nm in exp["nodes"]:
        if names.count(nm) != 1:
            return (f"state {nm} is drawn {names.count(nm)} times (nodes: {sorted(names)}): every "
                    f"state needs exactly one node of its own, distinct from the initial pseudo-node")
    if len(pseudo) != 1:
        return f"nodes {sorted(names)}: expected the states {sorted(exp['nodes'])} plus one pseudo-node"
    pseudo = pseudo[0]
    for nd in graph.get_nodes():
        nodes[strip(nd.get_name())] = nd.get_attributes()
    edges = Counter()
    init_edges = []
    for e in graph.get_edges():
        s, d = strip(e.get_source()), strip(e.get_destination())
        lab = strip(e.get_attributes().get("label", ""))
        if s == pseudo:
            init_edges.append(d)
            continue
        if d == pseudo:
            return "an edge points at the initial pseudo-node"
        ev, _, cond = lab.partition("\n")
        cond = cond.strip()
        if cond.startswith("[") and cond.endswith("]"):
            cond = cond[1:-1]
        edges[(s, d, ev.strip(), cond)] += 1
    if init_edges != [exp["initial"]]:
        return f"initial pseudo-edge(s) point at {init_edges}, expected [{exp['initial']}]"
    if edges != exp["edges"]:
        miss = exp["edges"] - edges
        extra = edges - exp["edges"]
        return f"edges differ: missing {dict(miss)} unexpected {dict(extra)}"
    highlighted = []
    for sid in sorted(exp["nodes"]):
        at = nodes[sid]
        per = str(at.get("peripheries", "1"))
        want = "2" if sid in exp["finals"] else "1"
        if strip(per) != want:
            return f"state {sid}: peripheries={per}, expected {want} (final={sid in exp['finals']})"
        label = strip(at.get("label", ""))
        lines = label.split("\n")
        if lines[0].strip() != exp["names"][sid]:
            return f"state {sid}: label {label!r} does not start with its name"
        listed = []
        for ln in lines[1:]:
            head, sep, _ = ln.partition(" / ")
            if sep and head.strip() not in ("entry", "exit"):
                listed.append(head.strip())
        if sorted(listed) != sorted(exp["internal"][sid]):
            return (f"state {sid}: internal transitions listed in the label {listed}, expected "
                    f"{exp['internal'][sid]}")
        fill = strip(str(at.get("fillcolor", "")))
        pen = at.get("penwidth")
        if fill not in ("white", "") or pen is not None:
            highlighted.append(sid)
    want_h = [current] if current is not None else []
    if highlighted != want_h:
        return f"highlighted states {highlighted}, expected {want_h}"
    return None


def graphs(tier):
    out = []
    for n in (1, 2, 3):
        ps = pairs(n)
        for mask in range(1 << (n * n)):
            edges = [ps[i] for i in range(len(ps)) if mask >> i & 1]
            out.append((n, edges))
    if tier == "thorough":
        ps = pairs(4)
        for k in range(3, 7):
            for edges in itertools.combinations(ps, k):
                out.append((4, list(edges)))
    return out


def worker(block):
    from statemachine.contrib.diagram import DotGraphMachine
    tier, lo, hi = block
    res = BlockResult()
    for (n, edges) in graphs(tier)[lo:hi]:
        for init in range(n):
            for finals in itertools.chain.from_iterable(
                    itertools.combinations(range(n), r) for r in range(n + 1)):
                if oracle(n, edges, {init}, set(finals), False)[0] != "accept":
                    continue
                for deco, ids in [(d, "s") for d in DECOS] + [("plain", "i"), ("internal", "i")]:
                    if deco.startswith("internal") and not any(a == b for a, b in edges):
                        continue
                    SID = IDSETS[ids]
                    sc = {"n": n, "edges": [list(e) for e in edges], "init": init,
                          "finals": list(finals), "deco": deco, "ids": ids}
                    try:
                        with deadline(30):
                            cls, exp = make(n, edges, init, set(finals), deco, ids=ids)
                            res.stats["states"] += 1
                            msg = check_graph(DotGraphMachine(cls)(), exp, None)
                            res.stats["transitions"] += 1
                            if msg:
                                res.violation({"category": _cat(msg), "of": "class", "deco": deco},
                                              dict(sc, of="class"), f"class diagram: {msg}")
                                continue
                            # a subclass that adds nothing, declared twice: its diagram and
                            # (afterwards) the diagram of the class itself are the same picture
                            from statemachine.factory import StateMachineMetaclass as _Meta
                            with warnings.catch_warnings():
                                warnings.simplefilter("ignore")
                                sub = None
                                for _ in range(2):
                                    sub = _Meta("DSub", (cls,), {})
                            msg = check_graph(DotGraphMachine(sub)(), exp, None)
                            if msg:
                                msg = "diagram of a subclass that adds nothing: " + msg
                            else:
                                msg = check_graph(DotGraphMachine(cls)(), exp, None)
                                if msg:
                                    msg = ("class diagram after two subclasses were declared: "
                                           + msg)
                            res.stats["transitions"] += 2
                            if msg:
                                res.violation({"category": _cat(msg), "of": "subclass",
                                               "deco": deco}, dict(sc, of="subclass"),
                                              f"class diagram: {msg}")
                                continue
                            sm = cls()
                            kept = DotGraphMachine(sm)     # one renderer kept across the moves
                            for cur in reachable(n, edges, init):
                                sm.current_state_value = getattr(cls, SID[cur]).value
                                via = DotGraphMachine(sm)() if cur % 2 else sm._graph()
                                msg = check_graph(via, exp, SID[cur])
                                if not msg:
                                    msg = check_graph(kept(), exp, SID[cur])
                                    res.stats["transitions"] += 1
                                    if msg:
                                        msg = "renderer object reused after the machine moved: " + msg
                                if not msg:
                                    # an instance that *starts* in this state (start_value): the
                                    # initial pseudo-edge still shows the machine's initial state
                                    sv = cls(start_value=getattr(cls, SID[cur]).value)
                                    msg = check_graph(sv._graph(), exp, SID[cur])
                                    res.stats["transitions"] += 1
                                    if msg:
                                        msg = "instance created with start_value: " + msg
                                res.stats["transitions"] += 1
                                res.hist["instance" + ("-falsy-value" if not sm.current_state_value
                                                       else "")] += 1
                                if msg:
                                    res.violation({"category": _cat(msg), "of": "instance",
                                                   "deco": deco},
                                                  dict(sc, of="instance", current=cur),
                                                  f"instance diagram in {SID[cur]}: {msg}")
                                    break
                    except Hang:
                        res.violation({"category": "hang"}, sc, "diagram generation hung")
    if lo == 0:
        not_yet_activated(res)
        res.samples.append({"n": 3, "edges": [[0, 1], [1, 1], [1, 2]], "init": 0, "finals": [2],
                            "deco": "internal", "checked": "class + instance in s0, s1, s2"})
    return res


def not_yet_activated(res):
    """An instance of a machine with coroutine callbacks has no current state until it is
    activated (first event / activate_initial_state()): its diagram shows the machine with no
    state highlighted, and the initial state highlighted once it has been activated."""
    import asyncio
    from statemachine import State, StateMachine
    from statemachine.contrib.diagram import DotGraphMachine
    from statemachine.factory import StateMachineMetaclass
    for n, edges, init, finals in ((2, [(0, 1), (1, 0)], 0, ()), (2, [(0, 1)], 0, (1,)),
                                   (3, [(0, 1), (1, 2), (2, 0), (1, 1)], 1, ())):
        for where in ("sync-code", "running-loop"):
            _cls0, exp = make(n, edges, init, set(finals), "plain")

            async def after_transition(self):
                return None
            st = [State(name=f"State {i}", initial=(i == init), final=(i in finals),
                        **({"value": VALUES[i % 3]} if VALUES[i % 3] is not None else {}))
                  for i in range(n)]
            body = {IDSETS["s"][i]: st[i] for i in range(n)}
            for (a, b) in sorted(edges):
                st[a].to(st[b], event="e")
            body["after_transition"] = after_transition
            with warnings.catch_warnings():
                warnings.simplefilter("ignore")
                cls = StateMachineMetaclass("DA", (StateMachine,), body)
            sc = {"not_activated": [n, [list(e) for e in edges], init, list(finals), where]}
            res.stats["transitions"] += 2

            def graphs_of():
                sm = cls()
                return sm, [sm._graph(), DotGraphMachine(sm)()]

            try:
                if where == "sync-code":
                    sm, gs = graphs_of()
                    act = sm.activate_initial_state()
                    if hasattr(act, "__await__"):
                        asyncio.new_event_loop().run_until_complete(act)
                    after = sm._graph()
                else:
                    async def main():
                        sm, gs = graphs_of()
                        await sm.activate_initial_state()
                        return sm, gs, sm._graph()
                    loop = asyncio.new_event_loop()
                    try:
                        sm, gs, after = loop.run_until_complete(main())
                    finally:
                        loop.close()
            except Exception as e:   # noqa: BLE001
                res.violation({"category": "not-activated-instance", "where": where}, sc,
                              f"diagram of a not yet activated async instance ({where}): "
                              f"{type(e).__name__}: {e}")
                continue
            msg = None
            for g in gs:
                msg = msg or check_graph(g, exp, None)
            msg = msg or check_graph(after, exp, IDSETS["s"][init])
            if msg:
                res.violation({"category": "not-activated-instance", "where": where}, sc,
                              f"async instance ({where}): {msg}")
            else:
                res.hist["not-activated-instance"] += 1


def _cat(msg):
    for key in ("nodes", "drawn twice", "initial pseudo", "edges differ", "peripheries", "label",
                "internal transitions", "highlighted"):
        if key in msg:
            return key
    return "other"


def run(tier, seed):
    rep = Report(PID, tier, seed)
    n = len(graphs(tier))
    step = 16 if tier == "quick" else 64
    blocks = [(tier, i, min(i + step, n)) for i in range(0, n, step)]
    total, capped = run_blocks(worker, blocks, seed=seed)
    rep.add_violations(total.violations, total.hist_sig)
    rep.harness_errors = total.stats.get("harness_errors", 0)
    rep.notes.extend(total.notes)
    rep.coverage = {
        "states": total.stats["states"],
        "transitions": total.stats["transitions"],
        "traces_validated_against_impl": total.stats["transitions"],
        "graphs": n, "decorations": list(DECOS),
        "outcome_histogram": dict(total.hist),
        "samples": total.samples or [{"note": "no sample"}],
        "rule": "states = machine classes generated (accepted graph x initial x finals x "
                "decoration); transitions = diagrams generated (class + instance per reachable "
                "current state) and compared with the reference graph",
        "violations_total": total.stats.get("violations_total", 0),
    }
    rep.assumptions = ["pydot object attributes are what is drawn"]
    return rep.finish(exhaustive=not capped)


def replay(sc):
    from statemachine.contrib.diagram import DotGraphMachine
    if "not_activated" in sc:
        res = BlockResult()
        not_yet_activated(res)
        for v in res.violations:
            if v["scenario"] == sc:
                return v["message"]
        return None
    edges = [tuple(e) for e in sc["edges"]]
    ids = sc.get("ids", "s")
    cls, exp = make(sc["n"], edges, sc["init"], set(sc["finals"]), sc["deco"], ids=ids)
    if sc["of"] == "class":
        return check_graph(DotGraphMachine(cls)(), exp, None)
    if sc["of"] == "subclass":
        from statemachine.factory import StateMachineMetaclass as _Meta
        with warnings.catch_warnings():
            warnings.simplefilter("ignore")
            for _ in range(2):
                sub = _Meta("DSub", (cls,), {})
        return check_graph(DotGraphMachine(sub)(), exp, None) or \
            check_graph(DotGraphMachine(cls)(), exp, None)
    sm = cls()
    kept = DotGraphMachine(sm)
    for cur in reachable(sc["n"], edges, sc["init"]):
        sm.current_state_value = getattr(cls, IDSETS[ids][cur]).value
        msg = check_graph(sm._graph(), exp, IDSETS[ids][cur]) or \
            check_graph(DotGraphMachine(sm)(), exp, IDSETS[ids][cur]) or \
            check_graph(kept(), exp, IDSETS[ids][cur]) or \
            check_graph(cls(start_value=getattr(cls, IDSETS[ids][cur]).value)._graph(), exp,
                        IDSETS[ids][cur])
        if msg or cur == sc["current"]:
            return msg
    return None

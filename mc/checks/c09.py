"""C09 - class-definition validation accepts exactly the well-formed machines.

Enumerated: every directed graph on n states (every subset of the n*n ordered pairs as
transitions) x every initial-flag assignment x every final-flag assignment x strict_states
on/off, for n <= 3 (thorough: n = 4 with exactly one initial at every position and every edge set,
zero/two initials with few edges, n = 5 with <= 5 edges); variants: one shared event vs one event
per edge, duplicated edges, internal self-transitions, internal=True on a non-self pair,
from_.any() edges, no states / no events.  Oracle: an independent graph routine.  Compared:
accepted vs InvalidDefinition, and the warning kinds together with the state ids they list.
"""

import itertools
import re
import warnings

from ..par import BlockResult, Hang, deadline, run_blocks
from ..report import Report

PID = "C09"


def oracle(n, edges, initials, finals, strict, any_target=None):
    """edges: set of (src, dst).  Returns ("reject", why) or ("accept", {"trap": [...],
    "nopath": [...]})."""
    if n == 0:
        return ("abstract", None)
    edges = set(edges)
    if any_target is not None:
        for t in (any_target if isinstance(any_target, tuple) else (any_target,)):
            edges |= {(s, t) for s in range(n) if s not in finals}
    if not edges and any_target is None:
        # (an event declared through from_.any() exists even if it expands to no transition)
        return ("reject", "no events")
    if len(initials) != 1:
        return ("reject", "initial")
    if any(s in finals for (s, _d) in edges):
        return ("reject", "transition leaves a final state")
    succ = {s: set() for s in range(n)}
    for (s, d) in edges:
        succ[s].add(d)
    seen = set()
    todo = [next(iter(initials))]
    while todo:
        s = todo.pop()
        if s in seen:
            continue
        seen.add(s)
        todo.extend(succ[s])
    if len(seen) != n:
        return ("reject", "unreachable states")
    traps = [s for s in range(n) if s not in finals and not succ[s]]
    nopath = []
    if finals:
        for s in range(n):
            if s in finals:
                continue
            r = set()
            todo = list(succ[s])
            while todo:
                x = todo.pop()
                if x in r:
                    continue
                r.add(x)
                todo.extend(succ[x])
            if not (r & set(finals)):
                nopath.append(s)
    if strict and (traps or nopath):
        return ("reject", "strict")
    return ("accept", {"trap": traps, "nopath": nopath})


def build_class(n, edges, initials, finals, strict, variant="shared", any_target=None):
    """Runs the real class statement.  Returns ("accept", warnings) | ("reject", exc)."""
    from statemachine import State, StateMachine
    from statemachine.exceptions import InvalidDefinition
    from statemachine.factory import StateMachineMetaclass
    with warnings.catch_warnings(record=True) as wl:
        warnings.simplefilter("always")
        try:
            ns = {}
            st = [State(initial=(i in initials), final=(i in finals)) for i in range(n)]
            for i, s in enumerate(st):
                ns[f"s{i}"] = s
            for k, (a, b) in enumerate(sorted(edges)):
                internal = (variant == "internal" and a == b)
                if variant == "shared":
                    st[a].to(st[b], event="e")
                elif variant == "dup":
                    st[a].to(st[b], event="e")
                    st[a].to(st[b], event="f" if k % 2 else "e")
                elif variant == "attr":
                    ns[f"e_{a}_{b}"] = st[a].to(st[b])
                elif variant == "internal":
                    st[a].to(st[b], event="e", internal=internal)
                elif variant == "bad-internal":
                    st[a].to(st[b], event="e", internal=True)   # raises unless a == b
                else:
                    raise AssertionError(variant)
            if isinstance(any_target, tuple):
                # one event made of several from_.any() transition lists (one per target)
                tl = st[any_target[0]].from_.any()
                for t in any_target[1:]:
                    tl = tl | st[t].from_.any()
                ns["anyev"] = tl
            elif any_target is not None:
                ns["anyev"] = st[any_target].from_.any()
            kw = {"strict_states": True} if strict else {}
            cls = StateMachineMetaclass("G", (StateMachine,), ns, **kw)
        except InvalidDefinition as e:
            return ("reject", e)
        except Exception as e:   # noqa: BLE001
            return ("error", e)
    kinds = {"trap": None, "nopath": None}
    for w in wl:
        msg = str(w.message)
        ids = sorted(int(x) for x in re.findall(r"'s(\d+)'", msg.split("These states")[-1]))
        if "no outgoing transition" in msg:
            kinds["trap"] = ids
        elif "no path to a final state" in msg:
            kinds["nopath"] = ids
        elif issubclass(w.category, UserWarning):
            kinds.setdefault("other", []).append(msg)
    return ("accept", kinds, cls)


def _kinds(wl):
    kinds = {"trap": None, "nopath": None}
    for w in wl:
        msg = str(w.message)
        ids = sorted(int(x) for x in re.findall(r"'s(\d+)'", msg.split("These states")[-1]))
        if "no outgoing transition" in msg:
            kinds["trap"] = ids
        elif "no path to a final state" in msg:
            kinds["nopath"] = ids
        elif issubclass(w.category, UserWarning):
            kinds.setdefault("other", []).append(msg)
    return kinds


def subclass_statement(base, strict, ns=None):
    from statemachine.exceptions import InvalidDefinition
    from statemachine.factory import StateMachineMetaclass
    with warnings.catch_warnings(record=True) as wl:
        warnings.simplefilter("always")
        try:
            kw = {"strict_states": True} if strict else {}
            cls = StateMachineMetaclass("Sub", (base,), dict(ns or {}), **kw)
        except InvalidDefinition as e:
            return ("reject", e)
        except Exception as e:   # noqa: BLE001
            return ("error", e)
    return ("accept", _kinds(wl), cls)


def graph_diagnosis(cls):
    """What the rules say about the graph the class actually ended up with (states and
    transitions read back from the class): unreachable states, traps, states without a path to a
    final state.  Used where the declared graph is not the whole story (inheritance)."""
    ids = [s.id for s in cls.states]
    succ = {i: set() for i in ids}
    for s in cls.states:
        for t in s.transitions:
            succ[s.id].add(t.target.id)
    finals = {s.id for s in cls.states if s.final}
    init = [s.id for s in cls.states if s.initial]
    seen, todo = set(init), list(init)
    while todo:
        x = todo.pop()
        for y in succ[x]:
            if y not in seen:
                seen.add(y)
                todo.append(y)
    unreachable = sorted(set(ids) - seen)
    trap = sorted(i for i in ids if i not in finals and not succ[i])
    can = set(finals)
    changed = True
    while changed:
        changed = False
        for i in ids:
            if i not in can and succ[i] & can:
                can.add(i)
                changed = True
    nopath = sorted(i for i in ids if i not in can and i not in finals) if finals else []
    return unreachable, trap, nopath


def compare(exp, got, desc):
    if exp[0] == "abstract":
        if got[0] != "accept":
            return f"{desc}: an empty class body must be accepted as abstract, got {got[1]!r}"
        cls = got[2]
        from statemachine.exceptions import InvalidDefinition
        try:
            cls()
        except InvalidDefinition:
            return None
        except Exception as e:   # noqa: BLE001
            return f"{desc}: instantiating the abstract class raised {type(e).__name__}"
        return f"{desc}: the abstract class could be instantiated"
    if got[0] == "error":
        return f"{desc}: class statement raised {type(got[1]).__name__}: {got[1]} (expected {exp[0]})"
    if exp[0] != got[0]:
        why = exp[1] if exp[0] == "reject" else exp[1]
        return (f"{desc}: expected {exp[0]} ({why}) but the class statement "
                f"{'was accepted' if got[0] == 'accept' else 'raised ' + repr(str(got[1]))}")
    if exp[0] == "accept":
        w = got[1]
        for kind in ("trap", "nopath"):
            e = sorted(exp[1][kind])
            g = w.get(kind)
            if e and g is None:
                return f"{desc}: expected a '{kind}' warning for states {e}, none emitted"
            if not e and g is not None:
                return f"{desc}: spurious '{kind}' warning for states {g}"
            if e and g != e:
                return f"{desc}: '{kind}' warning lists {g}, expected {e}"
        if w.get("other"):
            return f"{desc}: unexpected warning {w['other'][0]!r}"
    return None


def pairs(n):
    return [(a, b) for a in range(n) for b in range(n)]


def subsets(items):
    for r in range(len(items) + 1):
        yield from itertools.combinations(items, r)


def space(tier):
    """Yields blocks: (n, edge-mask range, mode)."""
    blocks = []
    for n in (1, 2, 3):
        total = 1 << (n * n)
        step = 16 if n == 3 else total
        for lo in range(0, total, step):
            blocks.append(("full", n, lo, min(lo + step, total)))
    blocks.append(("special",))
    if tier == "thorough":
        total = 1 << 16
        for lo in range(0, total, 128):
            blocks.append(("n4", 4, lo, lo + 128))
        blocks.append(("n5",))
    return blocks


def worker(block):
    res = BlockResult()
    mode = block[0]
    if mode == "full":
        _, n, lo, hi = block
        ps = pairs(n)
        for mask in range(lo, hi):
            edges = [ps[i] for i in range(len(ps)) if mask >> i & 1]
            for initials in subsets(range(n)):
                for finals in subsets(range(n)):
                    for strict in (False, True):
                        variants = ["shared"]
                        if len(initials) == 1:
                            variants += ["attr", "internal"]
                            if strict is False and mask % 4 == 1:
                                variants += ["dup"]
                        for variant in variants:
                            _one(res, n, edges, set(initials), set(finals), strict, variant, None)
                        if len(initials) == 1:
                            for t in range(n):
                                _one(res, n, edges, set(initials), set(finals), strict, "shared", t)
                            for ts in itertools.combinations_with_replacement(range(n), 2):
                                _one(res, n, edges, set(initials), set(finals), strict, "shared",
                                     ts)
                            if n == 3:
                                _one(res, n, edges, set(initials), set(finals), strict, "shared",
                                     (0, 1, 2))
            res.stats["states"] += 1
    elif mode == "n4":
        _, n, lo, hi = block
        ps = pairs(n)
        for mask in range(lo, hi):
            edges = [ps[i] for i in range(len(ps)) if mask >> i & 1]
            for init in range(n):
                for finals in subsets(range(n)):
                    exp = oracle(n, edges, {init}, set(finals), False)
                    _one(res, n, edges, {init}, set(finals), False, "shared", None)
                    if exp[0] == "accept" and (exp[1]["trap"] or exp[1]["nopath"]):
                        _one(res, n, edges, {init}, set(finals), True, "shared", None)
            res.stats["states"] += 1
    elif mode == "n5":
        n = 5
        ps = pairs(n)
        for k in range(0, 6):
            for edges in itertools.combinations(ps, k):
                for init in (0, 2, 4):
                    for finals in ((), (4,), (1, 3), (0,)):
                        _one(res, n, list(edges), {init}, set(finals), False, "shared", None)
        for edges in itertools.combinations(pairs(4), 3):
            for initials in ((), (0, 1), (1, 3), (0, 1, 2, 3)):
                _one(res, 4, list(edges), set(initials), set(), False, "shared", None)
        res.stats["states"] += 1
    else:
        # special cases
        _one(res, 0, [], set(), set(), False, "shared", None)            # empty class: abstract
        _one(res, 2, [], {0}, set(), False, "shared", None)              # states, no events
        for (a, b) in pairs(3):
            _one(res, 3, [(0, 1), (1, 2), (2, 0), (a, b)], {0}, set(), False, "bad-internal", None,
                 only_edge=(a, b))
        inheritance_and_enum_specials(res)
        res.stats["states"] += 1
        res.samples.append({"n": 3, "edges": [[0, 1], [1, 1]], "initial": [0], "final": [2],
                            "strict": False, "expected": "reject (unreachable states)"})
    return res


def class_statement(fn):
    """Runs a class statement given as a function; returns ('accept', warnings) | ('reject', e)
    | ('error', e)."""
    from statemachine.exceptions import InvalidDefinition
    with warnings.catch_warnings(record=True) as wl:
        warnings.simplefilter("always")
        try:
            cls = fn()
        except InvalidDefinition as e:
            return ("reject", e, None)
        except Exception as e:   # noqa: BLE001
            return ("error", e, None)
    return ("accept", [str(w.message) for w in wl if issubclass(w.category, UserWarning)], cls)


def inheritance_and_enum_specials(res):
    """Subclass statements are class statements too, and so are machines whose states come from
    States.from_enum: the same acceptance rules apply."""
    import enum

    from statemachine import State, StateMachine
    from statemachine.factory import StateMachineMetaclass
    from statemachine.states import States

    def base(final=True, trap=False):
        a, b, f = State(initial=True), State(), State(final=final)
        ns = {"a": a, "b": b, "f": f, "go": a.to(b), "done": b.to(f)}
        if not final and not trap:
            ns["back"] = f.to(a)
        with warnings.catch_warnings():
            warnings.simplefilter("ignore")
            return StateMachineMetaclass("B9", (StateMachine,), ns)

    cases = []
    # (label, thunk, expected verdict, expected warning substring or None)
    for strict in (False, True):
        kw = {"strict_states": True} if strict else {}

        def sub_leaves_final(kw=kw):
            B = base()
            return StateMachineMetaclass("S9", (B,), {"go": B.f.to(B.a)}, **kw)
        cases.append((f"subclass adds a transition leaving the inherited final state under an "
                      f"inherited event name (strict={strict})", sub_leaves_final, "reject", None))

        def sub_new_event_leaves_final(kw=kw):
            B = base()
            return StateMachineMetaclass("S9", (B,), {"reopen": B.f.to(B.a)}, **kw)
        cases.append((f"subclass adds a new event leaving the inherited final state "
                      f"(strict={strict})", sub_new_event_leaves_final, "reject", None))

        def sub_unreachable(kw=kw):
            B = base()
            return StateMachineMetaclass("S9", (B,), {"z": State()}, **kw)
        cases.append((f"subclass adds an unreachable state (strict={strict})", sub_unreachable,
                      "reject", None))

        def sub_plain_of_trap(kw=kw):
            B = base(final=False, trap=True)       # f is a non-final state without exit
            return StateMachineMetaclass("S9", (B,), {}, **kw)
        cases.append((f"plain subclass of a machine with a trap state (strict={strict})",
                      sub_plain_of_trap, "reject" if strict else "accept",
                      None if strict else "no outgoing transition"))

        def sub_ok(kw=kw):
            B = base()
            return StateMachineMetaclass("S9", (B,), {}, **kw)
        cases.append((f"plain subclass of a well-formed machine (strict={strict})", sub_ok,
                      "accept", None))

    class E(enum.IntEnum):
        a = 1
        b = 2
        f = 0          # the final state's value is falsy

    for final_arg, label in ((E.f, "final=<member with value 0>"), ([E.f], "final=[member]")):
        for extra in (False, True):
            def from_enum(final_arg=final_arg, extra=extra):
                st = States.from_enum(E, initial=E.a, final=final_arg)
                ns = {"st": st, "go": st.a.to(st.b), "done": st.b.to(st.f)}
                if extra:
                    ns["again"] = st.f.to(st.a)        # leaves the final state
                return StateMachineMetaclass("E9", (StateMachine,), ns, strict_states=True)
            cases.append((f"States.from_enum(IntEnum, {label})"
                          f"{' + a transition leaving the final state' if extra else ''}",
                          from_enum, "reject" if extra else "accept", None))

    # inheritance where the declared pieces are not the whole story: the verdict and the
    # diagnostics must agree with the graph the subclass actually ends up with
    from statemachine import Event

    def base_any():
        a, b, f = State(initial=True), State(), State(final=True)
        return StateMachineMetaclass("BA9", (StateMachine,), {
            "a": a, "b": b, "f": f, "go": a.to(b), "finish": f.from_.any()})

    def base_eventonly():
        with warnings.catch_warnings():
            warnings.simplefilter("ignore")
            return StateMachineMetaclass("BE9", (StateMachine,), {
                "a": State(initial=True), "ping": Event()})

    def base_eventonly2():
        a, b = State(initial=True), State()
        return StateMachineMetaclass("BE9", (StateMachine,), {
            "a": a, "b": b, "go": a.to(b) | b.to(a), "ping": Event()})

    extra = []
    for strict in (False, True):
        kw = {"strict_states": True} if strict else {}

        def any_sub_stuck(kw=kw):
            B = base_any()
            z = State()
            return StateMachineMetaclass("SA9", (B,), {"z": z, "toz": B.a.to(z),
                                                       "loop": z.to.itself()}, **kw)

        def any_sub_escapes(kw=kw):
            B = base_any()
            z = State()
            return StateMachineMetaclass("SA9", (B,), {"z": z, "toz": B.a.to(z),
                                                       "out": z.to(B.b)}, **kw)

        def any_sub_trap(kw=kw):
            B = base_any()
            z = State()
            return StateMachineMetaclass("SA9", (B,), {"z": z, "toz": B.b.to(z)}, **kw)

        def any_sub_plain(kw=kw):
            return StateMachineMetaclass("SA9", (base_any(),), {}, **kw)

        def eventonly_sub2(kw=kw):
            return StateMachineMetaclass("SE9", (base_eventonly2(),), {}, **kw)
        extra += [(f"subclass of a from_.any() machine adds a state stuck in a self-loop "
                   f"(strict={strict})", any_sub_stuck),
                  (f"subclass of a from_.any() machine adds a state that leads back "
                   f"(strict={strict})", any_sub_escapes),
                  (f"subclass of a from_.any() machine adds a trap state (strict={strict})",
                   any_sub_trap),
                  (f"plain subclass of a from_.any() machine (strict={strict})", any_sub_plain),
                  (f"plain subclass of a machine with an event that has no transition "
                   f"(strict={strict})", eventonly_sub2)]

    def eventonly_sub():
        return StateMachineMetaclass("SE9", (base_eventonly(),), {})
    extra.append(("plain subclass of a machine whose only event has no transition", eventonly_sub))
    for (label, fn) in extra:
        res.stats["evaluations"] += 1
        strict = "strict=True" in label
        got = class_statement(fn)
        msg = None
        if got[0] == "error":
            msg = f"{label}: the class statement raised {got[1]!r}"
        elif got[0] == "accept":
            unreach, trap, nopath = graph_diagnosis(got[2])
            warned = " | ".join(got[1])
            if unreach:
                msg = f"{label}: accepted although {unreach} cannot be reached"
            elif strict and (trap or nopath):
                msg = (f"{label}: accepted under strict_states although the class has traps "
                       f"{trap} / states without a path to a final state {nopath}")
            else:
                for ids, key in ((trap, "no outgoing transition"),
                                 (nopath, "no path to a final state")):
                    has = [w for w in got[1] if key in w]
                    if ids and not (has and all(repr(i) in has[0] for i in ids)):
                        msg = (f"{label}: the class has states {ids} with {key} but the "
                               f"warnings were: {warned or 'none'}")
                    elif not ids and has:
                        msg = f"{label}: spurious warning {has[0]!r}"
        else:
            # rejected: legitimate only under strict_states for a graph with traps / no path.
            # Re-declare without strict to see the graph.
            if not strict:
                msg = f"{label}: rejected with {got[1]!r} (the same graph as one class is accepted)"
            else:
                res.hist["special:reject"] += 1
        if msg:
            res.violation({"category": "special", "case": label[:40]}, {"special": label}, msg)
        elif got[0] == "accept":
            res.hist["special:accept"] += 1

    for (label, fn, want, warn) in cases:
        res.stats["evaluations"] += 1
        got = class_statement(fn)
        msg = None
        if got[0] != want:
            msg = (f"{label}: expected {want}, the class statement "
                   f"{'was accepted' if got[0] == 'accept' else 'raised ' + repr(got[1])}")
        elif want == "accept" and warn and not any(warn in w for w in got[1]):
            msg = f"{label}: expected a warning containing {warn!r}, got {got[1]}"
        elif want == "accept" and "from_enum" in label and not got[2].f.final:
            msg = f"{label}: the state declared final is not final"
        if msg:
            res.violation({"category": "special", "case": label[:40]}, {"special": label}, msg)
        else:
            res.hist["special:" + want] += 1


def _one(res, n, edges, initials, finals, strict, variant, any_target, only_edge=None):
    res.stats["evaluations"] += 1
    if variant == "bad-internal":
        # base ring is fine; one extra edge declared internal=True: legal only as a self-loop
        from statemachine import State
        from statemachine.exceptions import InvalidDefinition
        a, b = only_edge
        st = [State(initial=(i == 0)) for i in range(3)]
        try:
            st[a].to(st[b], event="x", internal=True)
            ok = True
        except InvalidDefinition:
            ok = False
        except Exception as e:   # noqa: BLE001
            res.violation({"category": "internal"}, {"bad_internal": [a, b]},
                          f"internal=True on {a}->{b} raised {type(e).__name__}")
            return
        if ok != (a == b):
            res.violation({"category": "internal"}, {"bad_internal": [a, b]},
                          f"internal=True on s{a}->s{b}: "
                          f"{'accepted' if ok else 'rejected'} (internal transitions must be "
                          f"self-transitions)")
        res.hist["internal-probe"] += 1
        return
    exp = oracle(n, edges, initials, finals, strict, any_target)
    try:
        with deadline(20):
            got = build_class(n, edges, initials, finals, strict, variant, any_target)
    except Hang:
        got = ("error", RuntimeError("hung"))
    desc = (f"n={n} edges={sorted(edges)} initial={sorted(initials)} final={sorted(finals)} "
            f"strict={strict} variant={variant}" + (f" from_.any()->{any_target}"
                                                    if any_target is not None else ""))
    msg = compare(exp, got, desc)
    if msg is None and got[0] == "accept" and exp[0] == "accept":
        # `class Sub(G): pass` is a class statement over the very same graph: same verdict, same
        # diagnostics
        sub = subclass_statement(got[2], strict)
        msg = compare(exp, sub, desc + " [plain subclass of the accepted class]")
        res.stats["evaluations"] += 1
    res.hist[exp[0] + (":" + exp[1] if exp[0] == "reject" else
                       (":warn" if exp[0] == "accept" and (exp[1]["trap"] or exp[1]["nopath"])
                        else ""))] += 1
    if msg:
        cat = "verdict" if exp[0] != got[0] else "warnings"
        res.violation({"category": cat, "expected": exp[0], "variant": variant,
                       "any": any_target is not None},
                      {"n": n, "edges": [list(e) for e in sorted(edges)],
                       "initials": sorted(initials), "finals": sorted(finals), "strict": strict,
                       "variant": variant, "any_target": any_target}, msg)


def run(tier, seed):
    rep = Report(PID, tier, seed)
    blocks = space(tier)
    total, capped = run_blocks(worker, blocks, seed=seed)
    rep.add_violations(total.violations, total.hist_sig)
    rep.harness_errors = total.stats.get("harness_errors", 0)
    rep.notes.extend(total.notes)
    rep.coverage = {
        "states": total.stats["states"],
        "transitions": total.stats["evaluations"],
        "traces_validated_against_impl": total.stats["evaluations"],
        "evaluations": total.stats["evaluations"],
        "bounds": "n<=3: every edge set x initial flags x final flags x strict (+ attribute-declared "
                  "events, internal self-loops, duplicated edges, from_.any() to every target, one event "
                  "made of two or three from_.any() lists); "
                  "thorough adds n=4 (all 65536 edge sets x 16 final sets x 4 initial positions) and "
                  "n=5 with <=5 edges",
        "outcome_histogram": dict(total.hist),
        "samples": total.samples or [{"note": "no sample"}],
        "rule": "states = edge sets; transitions = class definitions executed through the real "
                "metaclass and compared with the graph oracle",
        "violations_total": total.stats.get("violations_total", 0),
    }
    rep.assumptions = ["independent graph routine in mc/checks/c09.py:oracle"]
    return rep.finish(exhaustive=not capped)


def replay(sc):
    res = BlockResult()
    if "special" in sc:
        inheritance_and_enum_specials(res)
        for v in res.violations:
            if v["scenario"] == sc:
                return v["message"]
        return None
    if "bad_internal" in sc:
        _one(res, 3, [], {0}, set(), False, "bad-internal", None, only_edge=tuple(sc["bad_internal"]))
    else:
        _one(res, sc["n"], [tuple(e) for e in sc["edges"]], set(sc["initials"]), set(sc["finals"]),
             sc["strict"], sc["variant"],
             tuple(sc["any_target"]) if isinstance(sc["any_target"], list) else sc["any_target"])
    return res.violations[0]["message"] if res.violations else None

"""C15 - every declaration style of the same machine yields the same machine.

Abstract machines: states a (initial), b, c (+ optional final f), 1-2 events each with an ordered
list of 1-3 transitions (guards: none / cond g1 / unless g2), optional per-event `on` action, plus
multi-event families.  Every abstract machine is rendered as *source text* of a class body in
every applicable documented style and exec'd:
  a.to(b) / b.from_(a) / multi-target a.to(b, c) / multi-source c.from_(a, b) / to.itself() /
  `|` chains in both association orders / event= as string, list, space-separated string, Event /
  explicit Event(transitions, name=) / event-declaring decorator / from_.any() (declared after or
  before later states) vs explicit transitions from every non-final state / States.from_enum
  (both use_enum_instance) and States({...}) vs State attributes / inheritance from a base class.
Oracle: each rendering must have the reference structure (states with id/value/flags, event set,
per-state allowed events, per-state candidate order with targets and guards) and follow the
reference trace from every state for every event and guard valuation; so all renderings agree.
"""

import enum
import itertools

from ..drive import Pair, typed_vals
from ..par import BlockResult, Hang, deadline, run_blocks
from ..ref import Cfg
from ..report import Report
from ..spec import M, S, T, Built

PID = "C15"
CFGS = (Cfg("sync", True, False, "direct"), Cfg("sync", True, True, "direct"))
POOL = (("a", "b"), ("b", "c"), ("c", "a"), ("a", "a"), ("a", "c"), ("b", "a"))
GUARD_PATTERNS = ("none", "first-cond", "alt-unless")


class AT(tuple):
    """(src, dst, cond, unless)"""
    src = property(lambda s: s[0])
    dst = property(lambda s: s[1])
    cond = property(lambda s: s[2])
    unless = property(lambda s: s[3])


def guards_for(pairs, pattern):
    out = []
    seen_src = set()
    for i, (s, d) in enumerate(pairs):
        cond, unless = (), ()
        if pattern == "first-cond" and s not in seen_src:
            cond = ("g1",)
        if pattern == "alt-unless" and i % 2 == 0:
            unless = ("g2",)
        seen_src.add(s)
        out.append(AT((s, d, cond, unless)))
    return out


def abstract_machines(tier):
    """Yields (states, events) ; states: [(id, value, initial, final)] ; events: [(name, [AT], on)]"""
    from .c09 import oracle
    idx = {"a": 0, "b": 1, "c": 2, "f": 3}
    out = []
    lists1 = [p for k in (1, 2, 3) for p in itertools.permutations(POOL, k)]
    if tier == "quick":
        lists1 = [p for i, p in enumerate(lists1) if len(p) < 3 or i % 5 == 0]
    for l1 in lists1:
        for l2 in [()] + [(p,) for p in POOL[:4]]:
            for with_final in (False, True):
                n = 4 if with_final else 3
                edges = set((idx[s], idx[d]) for (s, d) in l1 + l2)
                if with_final:
                    edges.add((idx["c"], idx["f"]))
                if oracle(n, edges, {0}, {3} if with_final else set(), False)[0] != "accept":
                    continue
                for pat in GUARD_PATTERNS:
                    if pat != "none" and len(l1) == 1:
                        continue
                    for on in (False, True):
                        if on and (pat != "none" or l2):
                            continue
                        states = [("a", 1, True, False), ("b", 2, False, False),
                                  ("c", 3, False, False)]
                        events = [("e1", guards_for(l1, pat), on)]
                        if l2:
                            events.append(("e2", guards_for(l2, "none"), False))
                        if with_final:
                            states.append(("f", 4, False, True))
                            events.append(("fin", [AT(("c", "f", (), ()))], False))
                        out.append((states, events))
    # from_.any() family: an event from every non-final state to one target
    for tgt in ("a", "c", "f"):
        for (g, u) in (((), ()), (("g1",), ()), ((), ("g2",)), (("g1",), ("g2",))):
            for mixed in (False, "b", "same-target"):
                states = [("a", 1, True, False), ("b", 2, False, False), ("c", 3, False, False),
                          ("f", 4, False, True)]
                ring = ("ring", [AT(("a", "b", (), ())), AT(("b", "c", (), ())),
                                 AT(("c", "a", (), ()))], False)
                ats = [AT((s, tgt, g, u)) for s in ("a", "b", "c")]
                if mixed:
                    # one event = an explicit guarded transition followed by from_.any(); the
                    # explicit one may even lead to the very target of the any-transition
                    ats = [AT(("a", "b" if mixed == "b" else tgt, ("g1",), ()))] + ats
                anyev = ("close", ats, False)
                fin = ("fin", [AT(("c", "f", (), ()))], False)
                out.append((states, [ring, anyev] + ([fin] if tgt != "f" else [])))
    return out


def to_spec(states, events, multi=None, asyn=False):
    trans = []
    fl = "a" if asyn else ""
    prov = [("sm", "g1", ""), ("sm", "g2", ""), ("sm", "after_transition", fl)]
    for (name, ats, on) in events:
        for at in ats:
            evs = (name,) if not multi else multi
            trans.append(T(at.src, at.dst, evs, cond=at.cond, unless=at.unless))
        if on:
            for nm in (multi or (name,)):
                prov.append(("sm", f"on_{nm}", fl))
    sts = tuple(S(i, initial=ini, final=fin, value=v) for (i, v, ini, fin) in states)
    return M(states=sts, trans=tuple(trans), provided=tuple(prov))


# -- renderers: each returns a list of source lines for the class body, or None if it cannot
#    express the machine -------------------------------------------------------------------------

def kw(at, extra=""):
    parts = []
    if at.cond:
        parts.append(f"cond={list(at.cond)!r}" if len(at.cond) > 1 else f"cond={at.cond[0]!r}")
    if at.unless:
        parts.append(f"unless={at.unless[0]!r}")
    if extra:
        parts.append(extra)
    return ", ".join(parts)


def call(a, b, args):
    return f"{a}({b}{', ' + args if args else ''})"


def t_to(at, extra=""):
    return call(f"{at.src}.to", at.dst, kw(at, extra))


def t_from(at, extra=""):
    return call(f"{at.dst}.from_", at.src, kw(at, extra))


def states_attr(states):
    return [f"{i} = State(value={v!r}, initial={ini}, final={fin})" for (i, v, ini, fin) in states]


def methods(events):
    out = []
    for (name, _ats, on) in events:
        if on:
            out.append(f"on_{name} = MK('on_{name}')")
    return out


def r_canonical(states, events):
    body = states_attr(states)
    for (name, ats, on) in events:
        body.append(f"{name} = " + " | ".join(t_to(at) for at in ats))
    return body + methods(events)


def r_from(states, events):
    body = states_attr(states)
    for (name, ats, on) in events:
        body.append(f"{name} = " + " | ".join(t_from(at) for at in ats))
    return body + methods(events)


def r_mixed(states, events):
    body = states_attr(states)
    for (name, ats, on) in events:
        body.append(f"{name} = " + " | ".join((t_from if i % 2 else t_to)(at)
                                                for i, at in enumerate(ats)))
    return body + methods(events)


def r_or_right(states, events):
    if not any(len(ats) >= 3 for (_n, ats, _o) in events):
        return None
    body = states_attr(states)
    for (name, ats, on) in events:
        # transitions are attached to their source states when .to() is evaluated, i.e. left to
        # right; only the association of `|` differs
        terms = [t_to(at) for at in ats]
        if len(terms) >= 3:
            expr = f"{terms[0]} | ({' | '.join(terms[1:])})"
        else:
            expr = " | ".join(terms)
        body.append(f"{name} = {expr}")
    return body + methods(events)


def r_prebuilt_reordered(states, events):
    """Transitions are created in declaration order (kept in a plain list, which is not an event)
    and only then combined with `|` in *reverse* order: the candidate order of a state is the
    order in which its transitions were declared, not the operand order of `|`."""
    if not any(len(ats) >= 2 for (_n, ats, _o) in events):
        return None
    body = states_attr(states)
    k = 0
    for (name, ats, on) in events:
        body.append(f"_ts{k} = [" + ", ".join(t_to(at) for at in ats) + "]")
        body.append(f"{name} = " + " | ".join(f"_ts{k}[{i}]" for i in reversed(range(len(ats)))))
        k += 1
    return body + methods(events)


def r_param_then_attr(states, events):
    """The first transition of an event is declared with event='<name>', the remaining ones are
    assigned to the class attribute of the same name."""
    if not any(len(ats) >= 2 for (_n, ats, _o) in events):
        return None
    body = states_attr(states)
    for (name, ats, on) in events:
        if len(ats) >= 2:
            body.append(t_to(ats[0], f"event={name!r}"))
            body.append(f"{name} = " + " | ".join(t_to(at) for at in ats[1:]))
        else:
            body.append(f"{name} = " + " | ".join(t_to(at) for at in ats))
    return body + methods(events)


def r_attr_then_param(states, events):
    if not any(len(ats) >= 2 for (_n, ats, _o) in events):
        return None
    body = states_attr(states)
    for (name, ats, on) in events:
        if len(ats) >= 2:
            body.append(f"{name} = " + " | ".join(t_to(at) for at in ats[:-1]))
            body.append(t_to(ats[-1], f"event={name!r}"))
        else:
            body.append(f"{name} = " + " | ".join(t_to(at) for at in ats))
    return body + methods(events)


def r_ior(states, events):
    body = states_attr(states)
    for (name, ats, on) in events:
        body.append(f"{name} = {t_to(ats[0])}")
        for at in ats[1:]:
            body.append(f"{name} |= {t_to(at)}")
    return body + methods(events)


def _groups(ats, key):
    groups = []
    for at in ats:
        if groups and key(groups[-1][-1]) == key(at):
            groups[-1].append(at)
        else:
            groups.append([at])
    return groups


def r_multi_target(states, events):
    used = False
    body = states_attr(states)
    for (name, ats, on) in events:
        terms = []
        for grp in _groups(ats, lambda at: (at.src, at.cond, at.unless)):
            if len(grp) > 1:
                used = True
            terms.append(call(f"{grp[0].src}.to", ", ".join(a.dst for a in grp), kw(grp[0])))
        body.append(f"{name} = " + " | ".join(terms))
    return (body + methods(events)) if used else None


def r_multi_source(states, events):
    used = False
    body = states_attr(states)
    for (name, ats, on) in events:
        terms = []
        for grp in _groups(ats, lambda at: (at.dst, at.cond, at.unless)):
            if len(grp) > 1:
                used = True
            terms.append(call(f"{grp[0].dst}.from_", ", ".join(a.src for a in grp), kw(grp[0])))
        body.append(f"{name} = " + " | ".join(terms))
    return (body + methods(events)) if used else None


def r_itself(states, events):
    used = False
    body = states_attr(states)
    for (name, ats, on) in events:
        terms = []
        for at in ats:
            if at.src == at.dst:
                used = True
                k = kw(at)
                terms.append(f"{at.src}.to.itself({k})")
            else:
                terms.append(t_to(at))
        body.append(f"{name} = " + " | ".join(terms))
    return (body + methods(events)) if used else None


def r_event_param(style):
    def r(states, events):
        body = states_attr(states)
        for (name, ats, on) in events:
            for at in ats:
                ev = {"str": repr(name), "list": repr([name]), "Event": f"Event({name!r})",
                      "Event-id": f"Event(id={name!r})"}[style]
                body.append(t_to(at, f"event={ev}"))
        return body + methods(events)
    return r


def r_event_class(named):
    def r(states, events):
        body = states_attr(states)
        for (name, ats, on) in events:
            tl = " | ".join(t_to(at) for at in ats)
            body.append(f"{name} = Event({tl}{', name=' + repr(name.upper()) if named else ''})")
        return body + methods(events)
    return r


def r_decorator(states, events):
    if not any(on for (_n, _a, on) in events):
        return None
    body = states_attr(states)
    for (name, ats, on) in events:
        tl = " | ".join(t_to(at) for at in ats)
        if on:
            body.append(f"{name} = ({tl})(MK('on_{name}'))")     # == @(...) def <name>(self)
        else:
            body.append(f"{name} = {tl}")
    return body


def _any_event(states, events):
    """(event name, number of leading explicit transitions) if the event ends with a block that
    from_.any() can express."""
    nonfinal = [i for (i, _v, _ini, fin) in states if not fin]
    for (name, ats, on) in events:
        for lead in (0, 1):
            tail = ats[lead:]
            if [a.src for a in tail] == nonfinal and \
                    len({(a.dst, a.cond, a.unless) for a in tail}) == 1:
                return name, lead
    return None


def r_any(early):
    def r(states, events):
        found = _any_event(states, events)
        if found is None:
            return None
        target_ev, lead = found
        ats = next(a for (n, a, _o) in events if n == target_ev)
        tgt = ats[lead].dst
        explicit = "".join(t_to(at) + " | " for at in ats[:lead])
        anyline = f"{target_ev} = {explicit}{tgt}.from_.any({kw(ats[lead])})"
        lines = states_attr(states)
        rest = []
        for (name, eats, on) in events:
            if name != target_ev:
                rest.append(f"{name} = " + " | ".join(t_to(at) for at in eats))
        if not early:
            return lines + rest + [anyline] + methods(events)
        if lead:
            return None     # the explicit operand needs states that are not declared yet
        # declare the any-event right after its target state, *before* later states exist
        ids = [s[0] for s in states]
        k = ids.index(tgt)
        if k == len(ids) - 1:
            # target declared last: move the target's declaration first (declaration order of
            # states changes, which the structural comparison accounts for)
            return None
        return lines[:k + 1] + [anyline] + lines[k + 1:] + rest + methods(events)
    return r


def r_event_guard_decorators(states, events):
    """Guards shared by every transition of an event are attached through the decorators of an
    explicit Event object (`@close.cond` / `@close.unless` over a function), the transitions
    themselves are declared bare."""
    if not any(ats and len({(at.cond, at.unless) for at in ats}) == 1 and (ats[0].cond or ats[0].unless)
               for (_n, ats, _on) in events):
        return None
    body = states_attr(states)
    for (name, ats, on) in events:
        uniform = len({(at.cond, at.unless) for at in ats}) == 1 and (ats[0].cond or ats[0].unless)
        if not uniform:
            body.append(f"{name} = " + " | ".join(t_to(at) for at in ats))
            continue
        bare = " | ".join(call(f"{at.src}.to", at.dst, "") for at in ats)
        body.append(f"{name} = Event({bare})")
        for g in ats[0].cond:
            body.append(f"d{g} = {name}.cond(MKN({g!r}, 'd{g}'))")     # == @<name>.cond def dg1(self)
        for g in ats[0].unless:
            body.append(f"d{g} = {name}.unless(MKN({g!r}, 'd{g}'))")
    return body + methods(events)


def MKN(name, fname):
    """A function called `fname` that reports to the environment as `name`."""
    from ..spec import _mk_sync
    fn = _mk_sync(name)
    fn.__name__ = fname
    fn.__qualname__ = f"HS.{fname}"
    return fn


def r_states_container(kind):
    def r(states, events):
        if kind.startswith("enum"):
            strm = kind.startswith("enum-str")
            members = ", ".join(f"{i!r}: {(f'val{v}' if strm else v)!r}" for (i, v, _a, _b) in states)
            if kind == "enum-alias":
                # the Enum also has an alias (a second name for the first member's value):
                # aliases are not members, they declare no state
                (i0, v0, _a0, _b0) = states[0]
                members += f", 'zz_alias_of_{i0}': {v0!r}"
            ini = next(i for (i, _v, a, _b) in states if a)
            fins = [i for (i, _v, _a, b) in states if b]
            # a single final state is given as the member itself, as in the from_enum docstring
            # (for a str-mixin Enum the member is itself an iterable of characters)
            single = strm and len(fins) == 1
            final = f"_E.{fins[0]}" if single else f"[{', '.join('_E.' + f for f in fins)}]"
            head = [f"_E = enum.Enum('_E', {{{members}}}{', type=str' if strm else ''})",
                    f"_ = States.from_enum(_E, initial=_E.{ini}, final={final}"
                    f"{', use_enum_instance=True' if kind.endswith('instance') else ''})"]
        else:
            items = ", ".join(f"{i!r}: State(value={v!r}, initial={a}, final={b})"
                              for (i, v, a, b) in states)
            head = [f"_ = States({{{items}}})"]
        body = list(head)
        for (name, ats, on) in events:
            terms = [call(f"_.{at.src}.to", f"_.{at.dst}", kw(at)) for at in ats]
            body.append(f"{name} = " + " | ".join(terms))
        return body + methods(events)
    return r


RENDERERS = [
    ("canonical", r_canonical), ("from_", r_from), ("mixed-to-from", r_mixed),
    ("or-right-assoc", r_or_right), ("ior", r_ior), ("prebuilt-reordered", r_prebuilt_reordered),
    ("event-param-then-attr", r_param_then_attr), ("attr-then-event-param", r_attr_then_param), ("multi-target", r_multi_target),
    ("multi-source", r_multi_source), ("itself", r_itself),
    ("event=str", r_event_param("str")), ("event=list", r_event_param("list")),
    ("event=Event", r_event_param("Event")), ("event=Event(id=)", r_event_param("Event-id")),
    ("Event(tl)", r_event_class(False)), ("Event(tl,name)", r_event_class(True)),
    ("decorator", r_decorator), ("from_.any-late", r_any(False)), ("from_.any-early", r_any(True)),
    ("States.from_enum", r_states_container("enum")),
    ("States.from_enum-instance", r_states_container("enum-instance")),
    ("States.from_enum-str", r_states_container("enum-str")),
    ("States.from_enum-str-instance", r_states_container("enum-str-instance")),
    ("States(dict)", r_states_container("dict")),
    ("States.from_enum-with-alias", r_states_container("enum-alias")),
    ("Event-guard-decorators", r_event_guard_decorators),
]


def MK(name):
    from ..spec import _mk_sync
    return _mk_sync(name)


def MKA(name):
    """actions are coroutine functions, guards stay plain"""
    from ..spec import _mk_async, _mk_sync
    return _mk_async(name) if name.startswith(("on_", "after_")) else _mk_sync(name)


def exec_class(lines, inherit=False, asyn=False):
    from statemachine import Event, State, StateMachine
    from statemachine.states import States
    ns = {"State": State, "StateMachine": StateMachine, "States": States, "Event": Event,
          "enum": enum, "MK": MKA if asyn else MK, "MKN": MKN}
    guards = ["g1 = MK('g1')", "g2 = MK('g2')", "after_transition = MK('after_transition')",
              "_prov = 'sm'"]
    src = "class R(StateMachine):\n" + "".join("    " + ln + "\n" for ln in lines + guards)
    if inherit:
        src += ("BASE_BEFORE = [[(str(t.event), t.target.id) for t in s.transitions] "
                "for s in R.states]\n"
                "class R2(R):\n    pass\n"
                "BASE_AFTER = [[(str(t.event), t.target.id) for t in s.transitions] "
                "for s in R.states]\n")
    import warnings
    with warnings.catch_warnings():
        warnings.simplefilter("ignore")
        exec(src, ns)   # noqa: S102 - generated class body
    if inherit and ns["BASE_BEFORE"] != ns["BASE_AFTER"]:
        raise BaseMutated(f"defining `class R2(R): pass` changed the base class's transitions "
                          f"from {ns['BASE_BEFORE']} to {ns['BASE_AFTER']}")
    return ns["R2" if inherit else "R"], src


class BaseMutated(Exception):
    pass


def structure(cls):
    out = {"states": [], "events": sorted(str(e) for e in cls.events), "cands": {}}
    for s in cls.states:
        v = s.value
        v = v.value if isinstance(v, enum.Enum) else v
        if isinstance(v, str) and v.startswith("val") and v[3:].isdigit():
            v = int(v[3:])    # str-mixin Enum renderings carry the abstract value as text
        out["states"].append((s.id, v, s.initial, s.final))
        cl = []
        for t in s.transitions:
            # (guards attached through an Event's decorators are functions called d<guard>)
            conds = sorted(str(c).replace("dg", "g") for c in t.cond)
            cl.append((tuple(sorted(str(e) for e in t.events)), t.target.id, t.internal,
                       tuple(conds)))
        out["cands"][s.id] = cl
    out["states"].sort()
    return out


def ref_structure(m):
    out = {"states": sorted((s.id, s.val, s.initial, s.final) for s in m.states),
           "events": sorted(m.all_events()), "cands": {}}
    for s in m.states:
        cl = []
        for t in m.trans:
            if t.src == s.id:
                conds = sorted(list(t.cond) + ["!" + u for u in t.unless])
                cl.append((tuple(sorted(t.events)), t.dst, t.internal, tuple(conds)))
        out["cands"][s.id] = cl
    return out


def cmp_structure(a, b):
    """a: observed, b: reference.  Candidate order is compared per (state, event)."""
    if a["states"] != b["states"]:
        return f"states {a['states']} expected {b['states']}"
    if a["events"] != b["events"]:
        return f"events {a['events']} expected {b['events']}"
    for sid in b["cands"]:
        evs = sorted({e for c in b["cands"][sid] for e in c[0]} |
                     {e for c in a["cands"].get(sid, []) for e in c[0]})
        for e in evs:
            ca = [c[1:] for c in a["cands"].get(sid, []) if e in c[0]]
            cb = [c[1:] for c in b["cands"][sid] if e in c[0]]
            if ca != cb:
                return f"state {sid}, event {e}: candidates {ca} expected {cb}"
    return None


ACFGS = (Cfg("async", True, False, "facade"), Cfg("async", True, True, "inloop"))


def behaviour(cls, m, inst_enum=False, cfgs=None):
    """Product exploration of the rendering against the reference."""
    if inst_enum:
        # the rendering stores enum members as state values: same machine, typed values
        vals = {x.id: x.value for x in cls.states}
        import dataclasses
        m = dataclasses.replace(m, states=tuple(dataclasses.replace(s, value=vals[s.id])
                                                for s in m.states))
    built = Built(m, cls, [], {}, None, {})
    built.tidx_of = None
    names = ["g1", "g2"]
    steps = 0
    for cfg in (cfgs or CFGS):
        p = Pair(built, cfg)
        p.impl.env.tidx_of = _AnyIdx()
        msg = p.construct()
        if msg is None and cfg.engine == "async":
            msg = p.activate()
        if msg:
            return f"construct: {msg}", steps
        salt = 0
        for s in m.states:
            for ev in m.all_events() + ["nope"]:
                uses = any(t.src == s.id and ev in t.events and (t.cond or t.unless)
                           for t in m.trans)
                vals = [dict(zip(names, b)) for b in itertools.product((True, False), repeat=2)] \
                    if uses else [{"g1": True, "g2": False}]
                for v in vals:
                    salt += 1
                    p.impl.sm.current_state_value = s.val
                    p.ref.value = s.val
                    msg = p.send(ev, typed_vals(v, salt), tag=f"e{salt}")
                    steps += 1
                    if msg is None:
                        al = sorted(str(e) for e in p.impl.sm.allowed_events)
                        want = sorted(m.allowed(p.ref.cur().id))
                        if al != want:
                            msg = f"allowed_events {al} expected {want}"
                    if msg:
                        return f"[{cfg.engine} allow={cfg.allow}] from {s.id} send {ev} {v}: {msg}", steps
    return None, steps


class _AnyIdx(dict):
    """tidx lookup that never knows: the matcher treats None as a wildcard."""

    def get(self, k, d=None):
        return None


def multi_event_family(asyn=False):
    """One transition list bound to two events, in several styles; each event has its own
    `on_<event>` callback, which runs for its event only (coroutine functions when asyn)."""
    states = [("a", 1, True, False), ("b", 2, False, False), ("c", 3, False, False)]
    ats = [AT(("a", "b", ("g1",), ())), AT(("a", "c", (), ())), AT(("b", "a", (), ())),
           AT(("c", "a", (), ()))]
    events = [("e1", ats, True)]
    m = to_spec(states, events, multi=("e1", "e2"), asyn=asyn)
    base = states_attr(states) + ["on_e1 = MK('on_e1')", "on_e2 = MK('on_e2')"]
    tl = " | ".join(t_to(at) for at in ats)
    styles = {
        "two-attributes": base + [f"e1 = e2 = {tl}"],
        "event='e1 e2'": base + [t_to(at, "event='e1 e2'") for at in ats],
        "event=[e1,e2]": base + [t_to(at, "event=['e1', 'e2']") for at in ats],
        "attr+event-param": base + [f"e1 = " + " | ".join(t_to(at, "event='e2'") for at in ats)],
        "event=[Event,str]": base + [t_to(at, "event=[Event('e1'), 'e2']") for at in ats],
        # the separator is white space: more than one blank, or blanks around the names
        "event='e1  e2'": base + [t_to(at, "event='e1  e2'") for at in ats],
        "event=' e1 e2 '": base + [t_to(at, "event=' e1 e2 '") for at in ats],
        "event=['e1 ', ' e2']": base + [t_to(at, "event=['e1 ', ' e2']") for at in ats],
        # id-less Event objects declared first (named by their attribute later), several of
        # them on one transition
        "event=[Event(), Event()]": ["e1 = Event(name='First')", "e2 = Event(name='Second')"] +
        base + [t_to(at, "event=[e1, e2]") for at in ats],
        "event=[Event(), str]": ["e1 = Event(name='First')"] + base +
        [t_to(at, "event=[e1, 'e2']") for at in ats],
    }
    return m, styles


def multi_any_family():
    """One from_.any() list serving two events (alias / shared list), with a guard, next to an
    ordinary ring: equivalent to explicit transitions from every non-final state for both."""
    states = [("a", 1, True, False), ("b", 2, False, False), ("c", 3, False, False),
              ("f", 4, False, True)]
    ring = [AT(("a", "b", (), ())), AT(("b", "c", (), ())), AT(("c", "a", (), ()))]
    anys = [AT((s, "c", ("g1",), ())) for s in ("a", "b", "c")]
    fin = [AT(("c", "f", (), ()))]
    m_tr = []
    for at in ring:
        m_tr.append(T(at.src, at.dst, ("step",)))
    for at in anys:
        m_tr.append(T(at.src, at.dst, ("e1", "e2"), cond=at.cond))
    for at in fin:
        m_tr.append(T(at.src, at.dst, ("fin",)))
    sts = tuple(S(i, initial=ini, final=fn, value=v) for (i, v, ini, fn) in states)
    m = M(states=sts, trans=tuple(m_tr),
          provided=(("sm", "g1", ""), ("sm", "g2", ""), ("sm", "after_transition", "")))
    base = states_attr(states) + ["step = " + " | ".join(t_to(at) for at in ring),
                                  "fin = " + t_to(fin[0])]
    styles = {
        "any:two-attributes": base + ["e1 = e2 = c.from_.any(cond='g1')"],
        "any:alias-later": base + ["e1 = c.from_.any(cond='g1')", "e2 = e1"],
        "any:explicit": base + ["e1 = e2 = " + " | ".join(t_to(at) for at in anys)],
        "any:explicit-event-list": base + [t_to(at, "event=['e1', 'e2']") for at in anys],
    }
    return m, styles


def alias_ior_family():
    """A transition list that already serves one event is extended under another name with
    `|=`: the first event keeps exactly its transitions (the list is not extended in place)."""
    states = [("a", 1, True, False), ("b", 2, False, False), ("c", 3, False, False)]
    sts = tuple(S(i, initial=ini, final=fn, value=v) for (i, v, ini, fn) in states)
    m = M(states=sts,
          trans=(T("a", "b", ("e1", "e2"), cond=("g1",)), T("b", "c", ("e2",)),
                 T("c", "a", ("e2",))),
          provided=(("sm", "g1", ""), ("sm", "g2", ""), ("sm", "after_transition", "")))
    base = states_attr(states)
    styles = {
        "alias:explicit": base + ["e1 = a.to(b, cond='g1')", "e2 = e1 | b.to(c) | c.to(a)"],
        "alias:ior": base + ["e1 = a.to(b, cond='g1')", "e2 = e1", "e2 |= b.to(c)",
                             "e2 |= c.to(a)"],
        "alias:ior-in-helper": base + ["e1 = a.to(b, cond='g1')",
                                       "def _more(tl, t):\n        tl |= t\n        return tl",
                                       "e2 = _more(_more(e1, b.to(c)), c.to(a))", "del _more"],
    }
    return m, styles


def worker(block):
    res = BlockResult()
    if block[0] == "multi-any":
        m, styles = multi_any_family()
        for name, lines in styles.items():
            _check_rendering(res, m, name, lines, {"multi_any": name})
        m, styles = alias_ior_family()
        for name, lines in styles.items():
            _check_rendering(res, m, name, lines, {"alias_ior": name})
        res.stats["states"] += 2
        return res
    if block[0] == "multi":
        for asyn in (False, True):
            m, styles = multi_event_family(asyn)
            for name, lines in styles.items():
                _check_rendering(res, m, name + (" [async]" if asyn else ""), lines,
                                 {"multi": name, "asyn": asyn}, asyn=asyn)
        return res
    tier, lo, hi = block
    for (states, events) in abstract_machines(tier)[lo:hi]:
        m = to_spec(states, events)
        refs = ref_structure(m)
        del refs
        for (rname, rfn) in RENDERERS:
            lines = rfn(states, events)
            if lines is None:
                continue
            sc = {"states": [list(s) for s in states],
                  "events": [[n, [list(a) for a in ats], on] for (n, ats, on) in events],
                  "renderer": rname}
            _check_rendering(res, m, rname, lines, sc)
            if rname in ("canonical", "from_.any-late", "from_.any-early", "decorator",
                         "States.from_enum", "event=str"):
                iname = "inherited" if rname == "canonical" else "inherited:" + rname
                _check_rendering(res, m, iname, lines, dict(sc, renderer=iname), inherit=True)
        res.stats["states"] += 1
    if lo == 0:
        st, ev = abstract_machines(tier)[5]
        res.samples.append({"abstract": [[n, [list(a) for a in ats]] for (n, ats, _o) in ev],
                            "from_": r_from(st, ev), "canonical": r_canonical(st, ev)})
    return res


def _check_rendering(res, m, rname, lines, sc, inherit=False, asyn=False):
    res.stats["evaluations"] += 1
    res.hist[rname] += 1
    try:
        with deadline(60):
            try:
                cls, src = exec_class(lines, inherit, asyn)
            except BaseMutated as e:
                res.violation({"category": "base-class-mutated-by-subclass-definition",
                               "renderer": rname}, sc, f"[{rname}] {e}\n" + "\n".join(lines))
                return
            except Exception as e:   # noqa: BLE001
                res.violation({"category": "class-statement", "renderer": rname}, sc,
                              f"[{rname}] class statement raised {type(e).__name__}: {e}\n" +
                              "\n".join(lines))
                return
            msg = cmp_structure(structure(cls), ref_structure(m))
            if msg:
                res.violation({"category": "structure", "renderer": rname}, sc,
                              f"[{rname}] {msg}\n" + "\n".join(lines))
                return
            msg, steps = behaviour(cls, m, inst_enum=rname in (
                "States.from_enum-instance", "States.from_enum-str",
                "States.from_enum-str-instance"), cfgs=ACFGS if asyn else None)
            res.stats["transitions"] += steps
            if msg:
                res.violation({"category": "behaviour", "renderer": rname}, sc,
                              f"[{rname}] {msg}\n" + "\n".join(lines))
    except Hang:
        res.violation({"category": "hang", "renderer": rname}, sc, f"[{rname}] hung")


def run(tier, seed):
    rep = Report(PID, tier, seed)
    n = len(abstract_machines(tier))
    step = 12
    blocks = [(tier, i, min(i + step, n)) for i in range(0, n, step)] + [("multi",), ("multi-any",)]
    total, capped = run_blocks(worker, blocks, seed=seed)
    rep.add_violations(total.violations, total.hist_sig)
    rep.harness_errors = total.stats.get("harness_errors", 0)
    rep.notes.extend(total.notes)
    rep.coverage = {
        "states": total.stats["states"],
        "transitions": total.stats["transitions"],
        "traces_validated_against_impl": total.stats["evaluations"],
        "abstract_machines": n, "renderings_executed": total.stats["evaluations"],
        "renderings_by_style": dict(total.hist),
        "samples": total.samples or [{"note": "no sample"}],
        "rule": "states = abstract machines; every applicable rendering is exec'd as a class body, "
                "compared structurally with the reference and driven from every state with every "
                "event and guard valuation (transitions = sends compared with the reference)",
        "violations_total": total.stats.get("violations_total", 0),
        "violations_by_signature": total.hist_sig,
    }
    rep.assumptions = ["reference selection semantics in mc/ref.py; allowed_events compared as a "
                       "set here (its order is C13's subject)"]
    return rep.finish(exhaustive=not capped)


def replay(sc):
    res = BlockResult()
    if "alias_ior" in sc:
        m, styles = alias_ior_family()
        _check_rendering(res, m, sc["alias_ior"], styles[sc["alias_ior"]], sc)
        return res.violations[0]["message"] if res.violations else None
    if "multi_any" in sc:
        m, styles = multi_any_family()
        _check_rendering(res, m, sc["multi_any"], styles[sc["multi_any"]], sc)
        return res.violations[0]["message"] if res.violations else None
    if "multi" in sc:
        m, styles = multi_event_family(sc.get("asyn", False))
        _check_rendering(res, m, sc["multi"], styles[sc["multi"]], sc, asyn=sc.get("asyn", False))
    else:
        states = [tuple(s) for s in sc["states"]]
        events = [(n, [AT((a[0], a[1], tuple(a[2]), tuple(a[3]))) for a in ats], on)
                  for (n, ats, on) in sc["events"]]
        m = to_spec(states, events)
        rn = sc["renderer"]
        if rn == "inherited":
            _check_rendering(res, m, rn, r_canonical(states, events), sc, inherit=True)
        elif rn.startswith("inherited:"):
            _check_rendering(res, m, rn, dict(RENDERERS)[rn.split(":", 1)[1]](states, events), sc,
                             inherit=True)
        else:
            _check_rendering(res, m, rn, dict(RENDERERS)[rn](states, events), sc)
    return res.violations[0]["message"] if res.violations else None

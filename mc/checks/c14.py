"""C14 - event results come only from before/on return values, by the documented rule.

Populations of before/on slots (generic, per-event convention, inline name, decorator;
machine, model, listener) x a return value per populated slot from a typed alphabet
(None, 0, "", [], [1,2], (1,), {}, "x") x transition kind x engine x calling style.
Guards, validators, exit, enter and after callbacks are always present and return distinct
sentinels.  Oracle: unwrap rule over before-then-on results (set semantics inside a group).
"""

import itertools
from collections import Counter

from ..drive import Pair
from ..env import Plan
from ..par import BlockResult, Hang, deadline, run_blocks
from ..ref import Cfg
from ..report import Report
from ..spec import M, S, T, build

PID = "C14"
P3 = ("sm", "model", "L1")
SLOTS = []
for g in ("before", "on"):
    for p in P3:
        SLOTS += [(g, "generic", p, f"{g}_transition"), (g, "conv1", p, f"{g}_e1"),
                  (g, "conv2", p, f"{g}_e2"), (g, "inline", p, "i" + g[0])]
    SLOTS.append((g, "decorator", "dec", "d" + g[0]))
    # one callback name attached both as `before` and as `on` of the transition
    SLOTS.append((g, "inline", "sm", "shr"))
# inline plain *callables* whose __name__ coincides with an (unreferenced) method of the machine,
# the model and the listener: the callable that was given is the one that runs
SLOTS.append(("before", "callable", "fn", "audit"))
SLOTS.append(("on", "callable", "fn", "stamp"))
VALUES = (None, 0, "", [], [1, 2], (1,), {}, "x", ValueError("rv"))   # a *returned* exception object
KINDS = (("external", "e1"), ("external", "e2"), ("self", "e1"), ("internal", "e1"),
         ("internal", "e2"), ("none", "e1"))
CFGS = (("sync", Cfg("sync", True, True, "direct")), ("sync-nonrtc", Cfg("sync", False, True, "direct")),
        ("async", Cfg("async", True, True, "facade")), ("async-inloop", Cfg("async", True, True, "inloop")))


LATE = {"on_transition": "late-on", "before_e1": "late-b1", "on_e2": "late-o2"}


def late_names(pop):
    """What the listener attached later provides: when the population has an inline *name*
    (before="ib" / on="io" / the shared "shr"), only that name - no conventional name at all;
    otherwise the conventional names."""
    inline = [SLOTS[i][3] for i in pop if SLOTS[i][1] == "inline"]
    if inline:
        return {nm: f"late-{nm}" for nm in inline}
    return LATE


def make_spec(pop, kind, asyn, late=False):
    dst = "b" if kind == "external" else "a"
    fl = "a" if asyn else ""
    inl = {"before": [], "on": []}
    provided = []
    if late:
        provided += [("L9", nm, fl) for nm in late_names(pop)]
    for si in pop:
        (g, way, p, nm) = SLOTS[si]
        if way == "decorator":
            inl[g].append("%" + nm)
            provided.append(("dec", nm, fl))
        elif way == "callable":
            inl[g].append("@" + nm)
            provided.append(("fn", nm, fl))
            for decoy in ("sm", "model", "L1"):
                provided.append((decoy, nm, fl))
        else:
            if (p, nm, fl) not in provided:
                provided.append((p, nm, fl))
            if way == "inline":
                inl[g].append(nm)
    # always-present non-contributing callbacks with distinct sentinel results
    for nm in ("gok", "vok", "on_exit_state", "on_enter_state", "after_transition", "after_e1",
               "after_e2", "ia", "nst"):
        provided.append(("sm", nm, fl))
    provided.append(("L1", "on_enter_state", fl))
    provided.append(("model", "after_transition", fl))
    focal = T("a", dst, ("e1", "e2"), internal=(kind == "internal"),
              cond=("gok",), validators=("vok",), before=tuple(inl["before"]),
              on=tuple(inl["on"]), after=("ia",))
    trans = [focal, T("a", "b", ("tob",)), T("b", "a", ("back",)),
             T("a", "a", ("n1",), on=("nst",)), T("b", "b", ("n1",), on=("nst",))]
    return M(states=(S("a", initial=True), S("b")), trans=tuple(trans),
             provided=tuple(provided), listeners=("L1", "L9") if late else ("L1",))


def cid_of(slot):
    (g, way, p, nm) = slot
    return ("sm" if p == "dec" else p, nm)     # ("fn", name) for inline callables


def check_result(exp_groups, obs):
    B, O = [], []
    for g in exp_groups:
        if g.kind == "after":
            break          # only the first (outer) event's transition contributes
        if g.kind == "before":
            B = [c.value for c in g.calls]
        elif g.kind == "on":
            O = [c.value for c in g.calls]
    n = len(B) + len(O)
    key = lambda v: (type(v).__name__, repr(v))  # noqa: E731
    if n == 0:
        return None if obs is None else f"no before/on callbacks ran but the result is {obs!r}"
    if n == 1:
        e = (B + O)[0]
        return None if key(e) == key(obs) else f"single result: expected {e!r} observed {obs!r}"
    if type(obs) is not list or len(obs) != n:
        return f"expected a list of {n} results {B + O!r}, observed {obs!r}"
    if Counter(map(key, obs[:len(B)])) != Counter(map(key, B)):
        return f"before results must come first: expected {B!r} then {O!r}, observed {obs!r}"
    if Counter(map(key, obs[len(B):])) != Counter(map(key, O)):
        return f"on results: expected {B!r} then {O!r}, observed {obs!r}"
    return None


def run_population(res, pop, tier):
    for (kind, ev) in KINDS:
        for (cname, cfg) in CFGS:
            if cname in ("sync-nonrtc", "async-inloop") and len(pop) > 1:
                continue
            m = make_spec(pop, kind, cfg.engine == "async")
            built = build(m)
            cids = [cid_of(SLOTS[i]) for i in pop]
            # triples (thorough tier) use a reduced value alphabet that still has None, a falsy
            # non-None value, a list and a string
            vals_for = VALUES if len(pop) <= 2 else (None, 0, [1, 2], "x")
            combos = list(itertools.product(vals_for, repeat=len(pop)))
            # second pass (populations <= 1): the always-present `after` callback sends a nested
            # event whose own transition returns a value; it must never leak into the outer result
            passes = [(False, v) for v in combos]
            if len(pop) <= 1 and kind != "none":
                passes += [(True, v) for v in combos]
                if kind == "external" and cname == "sync":
                    # third pass: the `after` callback queues an event that is not allowed
                    # followed by an allowed one; the outer call fails, and the *next* event
                    # must return its own result, not the stranded one's
                    passes += [("reject", v) for v in combos[:2]]
            if len(pop) <= 1 and kind in ("self", "internal"):
                # fourth pass: the same transition fires for e1 and e2, then a listener is
                # attached, then both fire again - its before/on results join the event result
                # from then on (per-event conventions only for their event)
                passes += [("late", v) for v in combos]
            for vi, (nested, vals) in enumerate(passes):
                if nested == "late":
                    msg, p = run_late(built, pop, kind, cfg, dict(zip(cids, vals)), vi)
                    res.stats["evaluations"] += 1
                    res.stats["transitions"] += p.steps
                    res.hist["late-listener"] += 1
                    if msg:
                        res.violation({"category": "late-listener:" + _cat(msg), "kind": kind,
                                       "cfg": cname},
                                      {"pop_idx": list(pop), "pop": [list(SLOTS[i]) for i in pop],
                                       "kind": kind, "event": ev, "cfg": cname,
                                       "values": [repr(v) for v in vals], "style": "send",
                                       "nested": "late", "vi": vi}, msg)
                    continue
                rets = dict(zip(cids, vals))
                rules = {(("sm", "ia"), ev): (("n1",), 1)} if nested is True else \
                    {(("sm", "ia"), ev): (("zz", "n1"), 1)} if nested == "reject" else {}
                pcfg = cfg._replace(allow=False) if nested == "reject" else cfg
                p = Pair(built, pcfg, plan=Plan(rets=rets, rules=rules))
                msg = p.construct()
                style = "method" if vi % 2 else "send"
                gv = {"gok": kind != "none", "vok": True}
                if msg is None:
                    msg = p.send(ev, gv, tag="t0", style=style)
                if msg is None and nested == "reject":
                    # compared with the reference, which has nothing left in its queue
                    msg = p.send("back", gv, tag="t1")
                elif msg is None:
                    e, o = p.last
                    msg = check_result(e.groups, o.value)
                    if kind == "none" and o.value is not None:
                        msg = f"no transition fired but the result is {o.value!r}"
                res.stats["evaluations"] += 1
                res.stats["transitions"] += p.steps
                if msg is None and p.last[0].kind == "ok":
                    v = p.last[1].value
                    res.hist["result=" + ("None" if v is None else type(v).__name__)] += 1
                if msg:
                    res.violation({"category": _cat(msg), "kind": kind, "cfg": cname},
                                  {"pop_idx": list(pop), "pop": [list(SLOTS[i]) for i in pop],
                                   "kind": kind, "event": ev, "cfg": cname,
                                   "values": [repr(v) for v in vals], "style": style,
                                   "nested": nested}, msg)
                elif len(res.samples) < 1 and len(pop) == 2:
                    res.samples.append({"pop": [list(SLOTS[i]) for i in pop], "kind": kind,
                                        "event": ev, "cfg": cname,
                                        "values": [repr(v) for v in vals],
                                        "result": repr(p.last[1].value)})
            res.stats["states"] += 1


def run_late(built, pop, kind, cfg, rets, vi):
    from .c12 import listener_class
    asyn = cfg.engine == "async"
    m1 = make_spec(pop, kind, asyn, late=True)
    rets = dict(rets)
    rets.update({("L9", nm): v for nm, v in late_names(pop).items()})
    p = Pair(built, cfg, plan=Plan(rets=rets, rules={}))
    msg = p.construct()
    gv = {"gok": True, "vok": True}
    order = ("e1", "e2") if vi % 2 else ("e2", "e1")
    for k, e in enumerate(order):
        if msg is None:
            msg = p.send(e, gv, tag=f"pre{k}")
            if msg is None:
                msg = check_result(p.last[0].groups, p.last[1].value)
    if msg:
        return "before attaching: " + msg, p
    lsn = listener_class("L9", {nm: {"L9"} for nm in late_names(pop)}, asyn)()
    p.impl.sm.add_listener(lsn)
    p.ref.m = m1
    p.ref.trans_of = {}
    for ti, t in enumerate(m1.trans):
        p.ref.trans_of.setdefault(t.src, []).append((ti, t))
    for k, e in enumerate(order + order[:1]):
        msg = p.send(e, gv, tag=f"post{k}")
        if msg is None:
            msg = check_result(p.last[0].groups, p.last[1].value)
        if msg:
            return f"after attaching a listener (event {e}): {msg}", p
    return None, p


def _cat(msg):
    for key in ("before results must come first", "single result", "expected a list",
                "no transition fired", "no before/on", "result", "trace", "exception"):
        if key in msg:
            return key
    return "other"


def populations(tier):
    n = len(SLOTS)
    out = [()] + [(i,) for i in range(n)] + list(itertools.combinations(range(n), 2))
    if tier == "thorough":
        out += list(itertools.combinations(range(n), 3))
    return out


def worker(block):
    tier, lo, hi = block
    res = BlockResult()
    for pop in populations(tier)[lo:hi]:
        try:
            with deadline(120):
                run_population(res, pop, tier)
        except Hang:
            res.violation({"category": "hang"}, {"pop_idx": list(pop)}, "population hung")
    return res


def run(tier, seed):
    rep = Report(PID, tier, seed)
    n = len(populations(tier))
    step = 4 if tier == "quick" else 12
    blocks = [(tier, i, min(i + step, n)) for i in range(0, n, step)]
    total, capped = run_blocks(worker, blocks, seed=seed)
    rep.add_violations(total.violations, total.hist_sig)
    rep.harness_errors = total.stats.get("harness_errors", 0)
    rep.notes.extend(total.notes)
    rep.coverage = {
        "states": total.stats["states"],
        "transitions": total.stats["transitions"],
        "traces_validated_against_impl": total.stats["evaluations"],
        "evaluations": total.stats["evaluations"],
        "slots": len(SLOTS), "populations": n, "values": [repr(v) for v in VALUES],
        "kinds": [list(k) for k in KINDS], "configs": [c for c, _ in CFGS],
        "outcome_histogram": dict(total.hist),
        "samples": total.samples or [{"note": "no sample"}],
        "rule": "states = generated classes (population x kind x config); transitions = "
                "operations executed and compared; every value assignment of every population is run",
        "violations_total": total.stats.get("violations_total", 0),
    }
    rep.assumptions = ["unwrap rule as stated in the property; order inside a group unconstrained"]
    return rep.finish(exhaustive=not capped)


def replay(sc):
    cfg = dict(CFGS)[sc["cfg"]]
    pop = tuple(sc["pop_idx"])
    kind, ev = sc["kind"], sc["event"]
    m = make_spec(pop, kind, cfg.engine == "async")
    built = build(m)
    vals = [eval(v) for v in sc["values"]]  # noqa: S307
    rets = dict(zip([cid_of(SLOTS[i]) for i in pop], vals))
    nested = sc.get("nested")
    if nested == "late":
        return run_late(built, pop, kind, cfg, rets, sc["vi"])[0]
    rules = {(("sm", "ia"), ev): (("n1",), 1)} if nested is True else \
        {(("sm", "ia"), ev): (("zz", "n1"), 1)} if nested == "reject" else {}
    if nested == "reject":
        cfg = cfg._replace(allow=False)
    p = Pair(built, cfg, plan=Plan(rets=rets, rules=rules))
    msg = p.construct()
    if msg is None:
        msg = p.send(ev, {"gok": kind != "none", "vok": True}, tag="t0", style=sc["style"])
    if msg is None and nested == "reject":
        return p.send("back", {"gok": True, "vok": True}, tag="t1")
    if msg is None:
        e, o = p.last
        msg = check_result(e.groups, o.value)
        if kind == "none" and o.value is not None:
            msg = f"no transition fired but the result is {o.value!r}"
    return msg

"""C13 - send(), event methods and bound events are one and the same entry point.

(a) Calling styles: on the C01 machine family, every (state, event, valuation) edge is fired
    through send("e"), sm.e(), the matching item of sm.events, of sm.allowed_events, a trigger
    bound onto another object (bind_events_to) and MachineMixin(bind_events_as_methods); each is
    compared with the reference, so all styles are pairwise interchangeable; allowed_events and
    events are compared with the reference lists in every visited state.
(b) Names: every string in dir(sm), the state ids, "", "__initial__" and lookalikes is passed to
    send() in every state of strict and tolerant machines; unless it is a declared event the
    outcome must be TransitionNotAllowed / None, no callback runs and a snapshot of the machine,
    model and listeners is unchanged (no attribute was invoked).
"""

import itertools

from ..drive import CFG8, Pair, lock_held, queue_len, typed_vals
from ..par import BlockResult, Hang, deadline, run_blocks
from ..ref import Cfg
from ..report import Report
from ..spec import M, S, T, build
from .c01 import cands, mk_machine, valuations, SENT_EVENTS

PID = "C13"
STYLES = ("send", "method", "events_item", "allowed_item", "bound", "mixin", "foreign")


def machines(tier):
    full = cands(True)
    out = [("K0", ())] + [("K1F", (c,)) for c in full]
    red = [c for c in cands(False) if c[2][2] == () and c[2][1] == ()]
    if tier == "thorough":
        red = cands(False)
    out += [("K2R", cs) for cs in itertools.product(red, repeat=2)]
    return out


def explore(res, cs, tier):
    variants = [(False, False), ("all", False)]
    if len(cs) <= 1:
        variants += [(False, True), ("all", True)]
    if len(cs) == 2:
        # the base class already has the first candidate (and an instance of it has met the
        # event), the subclass adds the second candidate for the same event and state
        variants += [(False, "partial")]
    for asyn, inherited in variants:
        m, names = mk_machine(cs, asyn)
        if inherited:
            # fixed edges live in a base class, the candidates are added by a subclass on the
            # inherited states with the event named through the `event=` parameter
            k = len(cs)
            m = M(states=m.states, trans=m.trans[k:] + m.trans[:k], provided=m.provided)
            built = build(m, split=len(m.trans) - (1 if inherited == "partial" else k))
        else:
            built = build(m)
        declared = m.all_events()
        for cfg in CFG8():
            if (cfg.engine == "async") != bool(asyn):
                continue
            if cfg.driver == "inloop" and len(cs) > 1:
                continue
            if inherited and (not cfg.rtc or cfg.driver == "inloop"):
                continue
            pairs = {}
            for style in STYLES:
                if style == "mixin" and (cfg.allow or not cfg.rtc or cfg.driver == "inloop"):
                    continue
                if style == "foreign" and cfg.driver == "inloop":
                    continue
                p = Pair(built, cfg)
                p.impl.mixin = (style == "mixin")
                r = p.construct()
                if r is None and cfg.engine == "async":
                    r = p.activate()
                if r:
                    res.violation({"category": "construct", "style": style},
                                  {"machine": m.to_json(), "cfg": list(cfg), "style": style}, r)
                    continue
                pairs[style] = p
            salt = 0
            for st in ("A", "B", "C"):
                allowed = m.allowed(st)
                for ev in SENT_EVENTS:
                    vs = list(valuations(names)) if (st == "A" and ev in ("go", "go_back") and names) \
                        else [{n: True for n in names}]
                    for v in vs:
                        salt += 1
                        tv = typed_vals(v, salt)
                        for style, p in list(pairs.items()):
                            if style != "send" and ev not in declared:
                                continue
                            if style == "allowed_item" and ev not in allowed:
                                continue
                            r = p.install(st) or p.send(ev, tv, tag=f"e{salt}", style=style) \
                                or p.check_views()
                            res.stats["transitions"] += 1
                            res.hist[style] += 1
                            if r:
                                res.violation(
                                    {"category": _cat(r), "style": style, "engine": cfg.engine},
                                    {"machine": m.to_json(), "cfg": list(cfg), "style": style,
                                     "state": st, "event": ev, "vals": tv,
                                     "split": (len(m.trans) - (1 if inherited == "partial"
                                                               else len(cs)))
                                     if inherited else None},
                                    f"[{style}] {r}")
                                np = Pair(built, cfg)
                                np.impl.mixin = (style == "mixin")
                                np.construct()
                                if asyn:
                                    np.activate()
                                pairs[style] = np
                res.stats["states"] += 1
            res.stats["traces"] += len(pairs)
    res.stats["machines"] += 1


# -- (b) name probe ------------------------------------------------------------------------

def probe_machine(asyn):
    fl = "a" if asyn else ""
    prov = [("sm", n, fl) for n in ("before_transition", "on_enter_state", "after_transition", "g1")]
    prov += [("L1", "on_transition", fl), ("model", "on_exit_state", fl)]
    return M(states=(S("A", initial=True), S("B"), S("C", final=True)),
             trans=(T("A", "B", ("go",), cond=("g1",)), T("B", "A", ("back", "go_back")),
                    T("B", "C", ("finish",))),
             provided=tuple(prov), listeners=("L1",))


EXTRA_NAMES = ("go.now", "go.", ".go", "finish.x", "back.go_back", "go!", "go*", "go,back",
               "", " ", "__initial__", "go ", " go", "Go", "g", "go_", "goback", "back go_back",
               "go back", "model", "state", "send", "_engine", "current_state", "states", "events",
               "allowed_events", "__class__", "__init__", "__dict__", "add_listener", "_graph",
               "activate_initial_state", "bind_events_to", "start_value", "A", "B", "C", "name")


PROBE_FX = {"n": 0, "other": None}


def _fx(*_a, **_k):
    PROBE_FX["n"] += 1
    return "fx"


class _Descr:
    """non-data descriptor with an effect on every read"""

    def __get__(self, obj, owner=None):
        if obj is not None:
            PROBE_FX["n"] += 1
        return _fx


def _raising(self):
    PROBE_FX["n"] += 1
    raise RuntimeError("property evaluated")


def probe_extra_ns():
    """Attributes of the machine that are not events: reading or calling any of them through
    send() would be an effect (counted in PROBE_FX)."""
    import functools
    return {
        "report": property(lambda self: _fx()),
        "failing_report": property(_raising),
        "helper": lambda self, *a, **k: _fx(),
        "helper_cm": classmethod(lambda cls, *a, **k: _fx()),
        "helper_sm": staticmethod(_fx),
        "helper_partial": functools.partial(_fx),
        "lazy_thing": _Descr(),
    }


def attach_foreign_trigger(sm):
    """Another machine's triggers bound onto this machine's instance (bind_events_to): `work` is
    an attribute of `sm` that is a trigger - of the other machine, not an event of this one."""
    from statemachine import State, StateMachine

    class Worker(StateMachine):
        idle = State(initial=True)
        busy = State()
        work = idle.to(busy) | busy.to(idle)

    other = Worker()
    other.bind_events_to(sm)
    PROBE_FX["other"] = other
    return other


def snapshot(p):
    sm = p.impl.sm
    eng = getattr(sm, "_engine", None)
    other = PROBE_FX["other"]
    return (
        PROBE_FX["n"], other.current_state_value if other is not None else None,
        repr(getattr(sm.model, "state", None)), id(sm.model),
        tuple(sorted(k[:] + "" for k in sm.__dict__)),
        tuple(id(x) for x in getattr(sm, "_listeners", ())), queue_len(sm), lock_held(sm),
        p.impl.env.seq, id(eng), sm.allow_event_without_transition,
        tuple(sorted(vars(sm.model))) if hasattr(sm.model, "__dict__") else (),
        tuple(sorted(vars(p.impl.listeners[0]))) if p.impl.listeners else (),
    )


def probe(res, asyn, cfg):
    m = probe_machine(asyn)
    built = build(m, extra_ns=probe_extra_ns())
    declared = set(m.all_events())
    p = Pair(built, cfg)
    r = p.construct()
    if r is None and cfg.engine == "async":
        r = p.activate()
    if r:
        res.violation({"category": "construct"}, {"probe": True, "cfg": list(cfg)}, r)
        return
    attach_foreign_trigger(p.impl.sm)
    # one unknown event first: whatever the library caches lazily on the instance exists before
    # the snapshots are taken (only changes *caused by a probe* count)
    p.install("A")
    p.send("warm_up_unknown_event", {"g1": True}, tag=None)
    names = sorted({n[:] + "" for n in dir(p.impl.sm)} | set(EXTRA_NAMES) |
                   {s.id for s in m.states} | {"work"})      # plain str (dir() may list triggers)
    res.stats["probe_names"] = max(res.stats["probe_names"], len(names))
    for st in ("A", "B", "C"):
        for nm in names:
            if nm in declared:
                continue
            r = p.install(st)
            before = snapshot(p)
            if r is None:
                r = p.send(nm, {"g1": True}, tag=None)
            after = snapshot(p)
            res.stats["transitions"] += 1
            res.hist["probe"] += 1
            if r is None and before != after:
                r = f"send({nm!r}) changed the machine: {before} -> {after}"
            if r:
                res.violation({"category": "name-probe", "name": nm, "engine": cfg.engine},
                              {"probe": True, "asyn": bool(asyn), "cfg": list(cfg), "state": st,
                               "name": nm}, f"send({nm!r}) in state {st}: {r}")
                p = Pair(built, cfg)
                p.construct()
                if asyn:
                    p.activate()
                attach_foreign_trigger(p.impl.sm)
        res.stats["states"] += 1


def order_machine():
    """Class-level registration order of the events (e1 first: it is met on s1, declared first)
    differs from the order of the transitions leaving s0 (e2 first): allowed_events follows the
    state's transitions."""
    return M(states=(S("s1"), S("s0", initial=True), S("s2")),
             trans=(T("s0", "s1", ("e2",)), T("s0", "s0", ("e1",)), T("s1", "s0", ("e1",)),
                    T("s1", "s2", ("e3", "e2")), T("s2", "s0", ("e3",)), T("s2", "s1", ("e1",))),
             provided=(("sm", "after_transition", ""),))


def order_probe(res, cfg):
    built = build(order_machine())
    p = Pair(built, cfg)
    r = p.construct()
    if r is None and cfg.engine == "async":
        r = p.activate()
    for st in ("s0", "s1", "s2"):
        if r:
            break
        r = p.install(st) or p.check_views()
        res.stats["transitions"] += 1
        for ev in ("e1", "e2", "e3"):
            if r:
                break
            r = p.install(st) or p.send(ev, {}, tag=None) or p.check_views()
            res.stats["transitions"] += 1
    res.hist["order-probe"] += 1
    if r:
        res.violation({"category": "allowed-events-order", "engine": cfg.engine},
                      {"order_probe": True, "cfg": list(cfg)}, f"order machine: {r}")


def orphan_probe(res, cfg):
    """The program keeps only the triggers - bound onto another object with bind_events_to(),
    taken from `events`, or the event method itself - and drops its reference to the machine
    (`Workflow(doc).bind_events_to(doc)`); a garbage collection runs in between.  The triggers
    are the same entry point all the same: calling them drives the machine over its model."""
    import gc
    import inspect

    from ..drive import _Plain, loop
    built = build(order_machine())
    asyn = cfg.engine == "async"
    if asyn:
        import dataclasses
        built = build(dataclasses.replace(order_machine(),
                                          provided=(("sm", "after_transition", "a"),)))

    def new():
        return built.cls(built.new_model("s0"), rtc=cfg.rtc,
                         allow_event_without_transition=cfg.allow)

    def call(fn):
        from ..env import CUR, Env
        CUR.env = Env(built)
        try:
            r = fn(tag="t")
            if inspect.isawaitable(r):
                r = loop().run_until_complete(r)
            return r
        finally:
            CUR.env = None

    def bound():
        sm = new()
        holder = _Plain()
        sm.bind_events_to(holder)
        return sm.model, (lambda **kw: holder.e2(**kw)), (lambda **kw: holder.e1(**kw))

    def items():
        sm = new()
        evs = {str(e): e for e in sm.events}
        return sm.model, evs["e2"], evs["e1"]

    def methods():
        sm = new()
        return sm.model, sm.e2, sm.e1

    for how, mk in (("bind_events_to", bound), ("events item", items), ("event method", methods)):
        res.stats["transitions"] += 2
        res.hist["orphan-trigger"] += 1
        msg = None
        try:
            model, e2, e1 = mk()
            gc.collect()
            call(e2)                      # s0 -e2-> s1
            if model.state != "s1":
                msg = f"after e2 the model holds {model.state!r}, expected 's1'"
            else:
                gc.collect()
                call(e1)                  # s1 -e1-> s0
                if model.state != "s0":
                    msg = f"after e2, e1 the model holds {model.state!r}, expected 's0'"
        except Exception as e:   # noqa: BLE001
            msg = f"raised {type(e).__name__}: {e}"
        if msg:
            res.violation({"category": "orphan-trigger", "engine": cfg.engine},
                          {"orphan_probe": True, "cfg": list(cfg)},
                          f"trigger kept without the machine ({how}): {msg}")


def _cat(msg):
    for key in ("allowed_events", "events:", "stored state", "exception", "outcome kind", "result",
                "trace", "dirty", "current_state", "listed"):
        if key in msg:
            return key
    return "other"


def worker(block):
    res = BlockResult()
    if block[0] == "probe":
        _, asyn, cfg = block
        with deadline(120):
            probe(res, asyn, Cfg(*cfg))
            if not asyn:
                order_probe(res, Cfg(*cfg))
            orphan_probe(res, Cfg(*cfg))
        return res
    tier, lo, hi = block
    for (label, cs) in machines(tier)[lo:hi]:
        try:
            with deadline(120):
                explore(res, cs, tier)
        except Hang:
            res.violation({"category": "hang"}, {"cands": repr(cs)}, "exploration hung")
    if lo == 0:
        res.samples.append({"styles": list(STYLES), "example_edge": ["install A", "go", "g1=True"]})
    return res


def run(tier, seed):
    rep = Report(PID, tier, seed)
    ms = machines(tier)
    step = 6
    blocks = [(tier, i, min(i + step, len(ms))) for i in range(0, len(ms), step)]
    for cfg in CFG8():
        blocks.append(("probe", cfg.engine == "async", tuple(cfg)))
    total, capped = run_blocks(worker, blocks, seed=seed)
    rep.add_violations(total.violations, total.hist_sig)
    rep.harness_errors = total.stats.get("harness_errors", 0)
    rep.notes.extend(total.notes)
    rep.coverage = {
        "states": total.stats["states"],
        "transitions": total.stats["transitions"],
        "traces_validated_against_impl": total.stats["traces"],
        "machines": total.stats["machines"], "styles": list(STYLES),
        "probe_names_per_state": total.stats["probe_names"],
        "outcome_histogram": dict(total.hist),
        "samples": total.samples or [{"note": "no sample"}],
        "rule": "transitions = (state, event-or-name, valuation, calling style) edges executed on "
                "the real library and compared with the reference",
        "violations_total": total.stats.get("violations_total", 0),
    }
    rep.assumptions = ["reference selector mc/ref.py; snapshot covers model field, sm.__dict__ keys, "
                       "listeners, queue, lock, callback counter"]
    return rep.finish(exhaustive=not capped)


def replay(sc):
    cfg = Cfg(*sc["cfg"])
    if sc.get("order_probe"):
        res = BlockResult()
        order_probe(res, cfg)
        return res.violations[0]["message"] if res.violations else None
    if sc.get("orphan_probe"):
        res = BlockResult()
        orphan_probe(res, cfg)
        return res.violations[0]["message"] if res.violations else None
    if sc.get("probe"):
        m = probe_machine(sc.get("asyn", False))
        built = build(m, extra_ns=probe_extra_ns())
        p = Pair(built, cfg)
        p.construct()
        if cfg.engine == "async":
            p.activate()
        attach_foreign_trigger(p.impl.sm)
        r = p.install(sc["state"])
        before = snapshot(p)
        r = r or p.send(sc["name"], {"g1": True})
        after = snapshot(p)
        if r is None and before != after:
            r = f"send({sc['name']!r}) changed the machine"
        return r
    m = M.from_json(sc["machine"])
    built = build(m, split=sc.get("split"))
    p = Pair(built, cfg)
    p.impl.mixin = sc["style"] == "mixin"
    r = p.construct()
    if r is None and cfg.engine == "async":
        r = p.activate()
    return r or p.install(sc["state"]) or p.send(sc["event"], sc["vals"], tag="e1",
                                                   style=sc["style"]) or p.check_views()

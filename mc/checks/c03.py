"""C03 - run-to-completion: nested events are queued, FIFO, never interleaved.

Ring machine R3 with generic callbacks of every phase on machine, model and a listener.
A *rule* makes one callback send 1-2 nested events when it runs for a given triggering event
(with a firing budget).  Scenario = rule set x external history x config.  Oracle: the deque
reference (mc/ref.py): exact sequence of (event instance, phase) groups, state seen by every
callback, every nested call's return value and the outer call's.  Plus constant stack depth
for self-triggering chains of length up to 2000.
"""

import itertools

from ..drive import Pair
from ..env import Plan
from ..machines import GENERIC, PROVS, ring3, sparse_cb
from ..par import BlockResult, Hang, deadline, run_blocks
from ..ref import Ambiguous, Cfg
from ..report import Report
from ..spec import build

PID = "C03"

CFGS = (Cfg("sync", True, False, "direct"), Cfg("sync", False, False, "direct"),
        Cfg("async", True, False, "facade"), Cfg("async", True, False, "inloop"))

TOLERANT = (Cfg("sync", True, True, "direct"), Cfg("async", True, True, "facade"))
MIXED = Cfg("async", True, False, "facade")     # identity marks the "mixed" machine variant

XP = [("a", p) for p in ("before", "exit", "on", "enter", "after")] + \
     [("b", p) for p in ("before", "exit", "on", "enter", "after")] + \
     [("c", p) for p in ("before", "on", "after")] + [("__initial__", "enter")]
SINGLES = (("a",), ("b",), ("c",))
PAIRS = tuple(itertools.product("abc", repeat=2))

_BUILT = {}


def built_for(asyn, guarded=False, sparse=False):
    k = (asyn, guarded, sparse)
    if k not in _BUILT:
        _BUILT[k] = build(ring3(asyn=asyn, guarded=guarded, sparse=sparse))
    return _BUILT[k]


def rule(x, phase, prov, sends, budget):
    return (((prov, GENERIC[phase]), x), (tuple(sends), budget))


def srule(x, phase, prov, sends, budget):
    return (((prov, sparse_cb(x, phase)), x), (tuple(sends), budget))


XP_SPARSE = [(x, ph) for (x, ph) in XP if sparse_cb(x, ph)]


def rule_sets(tier):
    """Deterministic list of rule sets (each a tuple of rules)."""
    out = [(False, ()), (True, ())]
    # one rule, every provider, full send alphabet, both budgets
    for (x, ph) in XP:
        for prov in PROVS:
            for sends in SINGLES + PAIRS:
                for b in ((1, 2) if (len(sends) == 1 or tier == "thorough") else (1,)):
                    out.append((False, (rule(x, ph, prov, sends, b),)))
    # sparse ring (events b, c return None; only `a` has before/on callbacks)
    for (x, ph) in XP_SPARSE:
        for prov in ("sm", "L1"):
            for sends in SINGLES + PAIRS:
                for b in ((1, 2) if (len(sends) == 1 or tier == "thorough") else (1,)):
                    out.append((True, (srule(x, ph, prov, sends, b),)))
    # identical nested sends: the same event with the same arguments sent twice (or three times)
    # from one callback must be processed as often as it was sent
    for (x, ph) in XP:
        for ev in "abc":
            for times in (2, 3):
                key, val = rule(x, ph, "sm", (ev,) * times, 1)
                out.append((False, ((key, val + ("same",)),)))
    # guarded ring (s2 has no `a`, `r` exists only in s2): a nested event is judged against the
    # state it meets when it is dequeued, not against the state at the moment it was sent
    for ph in ("before", "exit", "on", "enter", "after"):
        for prov in ("sm", "L1"):
            for sends in (("r",), ("a", "r"), ("r", "a"), ("a", "a", "r"), ("a",), ("a", "a")):
                out.append(("guarded", (rule("a", ph, prov, sends, 1),)))
    # a nested send of a name that is no event of the machine: it is queued like any other and
    # rejected when its turn comes (after the transition in progress has completed)
    for ph in ("before", "exit", "on", "enter", "after"):
        for sends in (("zz",), ("zz", "b"), ("b", "zz")):
            out.append((False, (rule("a", ph, "sm", sends, 1),)))
    sbase = [srule(x, ph, "sm", s, 1) for (x, ph) in XP_SPARSE for s in SINGLES]
    for r1, r2 in itertools.combinations(sbase, 2):
        if not _conflict(r1, r2):
            out.append((True, (r1, r2)))
    # two rules
    if tier == "quick":
        base = [rule(x, ph, "sm", s, 1) for (x, ph) in XP for s in SINGLES]
    else:
        base = [rule(x, ph, prov, s, 1) for (x, ph) in XP for prov in ("sm", "L1")
                for s in SINGLES + (("a", "b"), ("b", "a"))]
    for r1, r2 in itertools.combinations(base, 2):
        if _conflict(r1, r2):
            continue
        out.append((False, (r1, r2)))
    if tier == "thorough":
        base3 = [rule(x, ph, "sm", s, 1) for (x, ph) in XP for s in SINGLES]
        for rs in itertools.combinations(base3, 3):
            if any(_conflict(p, q) for p, q in itertools.combinations(rs, 2)):
                continue
            out.append((False, rs))
    return out


def _conflict(r1, r2):
    """Two rules in the same callback group for the same triggering event: the queue order would
    depend on intra-group order, which is documented as unconstrained."""
    (c1, x1), _ = r1
    (c2, x2), _ = r2
    return x1 == x2 and c1[1] == c2[1]


def histories(maxlen):
    out = []
    for L in range(0, maxlen + 1):
        out.extend(itertools.product("abc", repeat=L))
    return out


def run_scenario(rules, hist, cfg, guarded=False, vals=None, sparse=False, mixed=False):
    """Returns (message|None, pair).  mixed: async engine, but the model's and the listener's
    callbacks are plain functions - a nested send made by one of them cannot be awaited, the
    event is queued all the same."""
    built = built_for("mixed" if mixed else cfg.engine == "async", guarded, sparse)
    plan = Plan(rules=dict(rules))
    p = Pair(built, cfg, plan=plan)
    r = p.construct()
    if r:
        return r, p
    if cfg.engine == "async" and any(x == "__initial__" for ((_c, x), _r) in rules) \
            and len(hist) % 2 == 0:
        # explicit activation (instead of the lazy one on the first event): events sent from the
        # initial enter callbacks are queued behind the activation all the same
        r = p.activate()
        if r:
            return f"activate: {r}", p
    for i, ev in enumerate(hist):
        r = p.send(ev, vals or {}, tag=f"e{i}")
        if r:
            return f"history step {i} ({ev}): {r}", p
        r = p.check_views()
        if r:
            return f"history step {i} ({ev}): {r}", p
    return None, p


def sc_json(rules, hist, cfg, extra=None):
    d = {"rules": [[list(c), x, list(r[0]), r[1]] + list(r[2:]) for ((c, x), r) in rules],
         "history": list(hist), "cfg": list(cfg)}
    if extra:
        d.update(extra)
    return d


def worker(block):
    tier, lo, hi, hl = block
    res = BlockResult()
    rs = rule_sets(tier)[lo:hi]
    hs = histories(hl)
    for (sparse, rules) in rs:
        for hist in hs:
            if not hist and not any(x == "__initial__" for ((_c, x), _r) in rules):
                continue
            plain_sender = any(c[0] in ("model", "L1") for ((c, _x), _r) in rules)
            guarded = sparse == "guarded"
            cfgs = CFGS + ((MIXED,) if plain_sender else ())
            if guarded:
                if "c" in hist:
                    continue
                cfgs = CFGS + TOLERANT
            for cfg in cfgs:
                res.stats["evaluations"] += 1
                mixed = cfg is MIXED
                try:
                    with deadline(20):
                        msg, p = run_scenario(rules, hist, cfg, sparse=(sparse is True),
                                              mixed=mixed, guarded=guarded,
                                              vals={"g1": True, "v1": True} if guarded else None)
                except Ambiguous:
                    res.stats["ambiguous_skipped"] += 1
                    continue
                except Hang:
                    msg, p = "scenario hung (>20 s)", None
                except RecursionError:
                    msg, p = "RecursionError", None
                if p is not None:
                    res.stats["transitions"] += p.steps
                    n_nested = len(p.ref.nested_returns)
                    res.hist[f"nested_sends={min(n_nested, 6)}"] += 1
                    if p.last and p.last[0].kind == "ok" and hist:
                        v = p.last[0].value
                        res.hist["last_result=" + ("None" if v is None else type(v).__name__)] += 1
                    res.stats["states"] += 1
                if msg:
                    res.violation({"category": _cat(msg), "engine": cfg.engine, "rtc": cfg.rtc,
                                   "mixed": mixed},
                                  sc_json(rules, hist, cfg, {"sparse": sparse, "mixed": mixed}), msg)
                elif len(res.samples) < 1 and rules and len(hist) == 2:
                    res.samples.append(sc_json(rules, hist, cfg, {"sparse": sparse}))
    return res


def _cat(msg):
    for key in ("nested send return", "result", "trace", "stored state", "exception", "dirty",
                "phase discipline", "hung", "Recursion", "depth"):
        if key in msg:
            return key
    return "other"


# -- chains -------------------------------------------------------------------------------------

def chain_scenarios(tier):
    out = []
    lens = (1, 5, 50, 2000)
    for ph in ("before", "exit", "on", "enter", "after"):
        for prov in PROVS:
            for n in lens:
                out.append((("a", ph), prov, n))
    for ph in ("before", "on", "after"):
        for n in lens:
            out.append((("c", ph), "sm", n))
    return out


def run_chain(x_ph, prov, n, cfg):
    (x, ph) = x_ph
    built = built_for(cfg.engine == "async")
    plan = Plan(rules=dict([rule(x, ph, prov, (x,), n)]))
    p = Pair(built, cfg, plan=plan)
    p.impl.env.measure_depth = True
    r = p.construct()
    if r:
        return r, p
    try:
        r = p.send(x, {}, tag="e0")
    except RecursionError:
        return "RecursionError inside the harness/reference", p
    if r:
        return r, p
    cid = (prov, GENERIC[ph])
    depths = [rec.depth for rec in p.impl.env.flat if rec.cid == cid and rec.event == x]
    if len(depths) != n + 1:
        return f"chain of {n} links ran {len(depths)} times", p
    if cfg.rtc and len(set(depths)) != 1:
        return (f"call-stack depth not constant along an RTC chain: first {depths[0]}, "
                f"max {max(depths)} over {n + 1} links"), p
    return None, p


def chain_worker(block):
    res = BlockResult()
    (x_ph, prov, n) = block
    import sys
    for cfg in CFGS:
        if not cfg.rtc and n > 50:
            continue
        res.stats["evaluations"] += 1
        res.stats["chains"] += 1
        old = sys.getrecursionlimit()
        try:
            with deadline(120):
                msg, p = run_chain(x_ph, prov, n, cfg)
        except Hang:
            msg, p = "chain hung (>120 s)", None
        finally:
            sys.setrecursionlimit(old)
        if p is not None:
            res.stats["transitions"] += p.steps
            res.stats["states"] += 1
        res.hist[f"chain_len={n}"] += 1
        if msg:
            res.violation({"category": "chain:" + _cat(msg), "engine": cfg.engine, "rtc": cfg.rtc},
                          {"chain": [list(x_ph), prov, n], "cfg": list(cfg)}, msg)
    return res


def run(tier, seed):
    rep = Report(PID, tier, seed)
    rs = rule_sets(tier)
    hl = 2 if tier == "quick" else 3
    step = 40 if tier == "quick" else 100
    blocks = [(tier, i, min(i + step, len(rs)), hl) for i in range(0, len(rs), step)]
    total, capped = run_blocks(worker, blocks, seed=seed)
    t2, capped2 = run_blocks(chain_worker, chain_scenarios(tier), seed=seed)
    from ..par import merge
    merge(total, t2)
    rep.add_violations(total.violations, total.hist_sig)
    rep.harness_errors = total.stats.get("harness_errors", 0)
    rep.notes.extend(total.notes)
    rep.coverage = {
        "states": total.stats["states"],
        "transitions": total.stats["transitions"],
        "traces_validated_against_impl": total.stats["states"],
        "evaluations": total.stats["evaluations"],
        "rule_sets": len(rs),
        "history_len": hl,
        "chains": total.stats["chains"],
        "ambiguous_skipped": total.stats["ambiguous_skipped"],
        "configs": [list(c) for c in CFGS],
        "outcome_histogram": dict(total.hist),
        "samples": total.samples or [{"note": "no sample"}],
        "rule": "states = complete scenario executions (rule set x history x config), "
                "transitions = operations (construct/send) compared with the deque reference",
        "violations_total": total.stats.get("violations_total", 0),
    }
    rep.assumptions = ["reference deque semantics in mc/ref.py",
                       "at most one sending callback per group invocation (intra-group order is "
                       "documented as unconstrained)"]
    return rep.finish(exhaustive=not (capped or capped2))


def replay(sc):
    cfg = Cfg(*sc["cfg"])
    if "chain" in sc:
        (x_ph, prov, n) = sc["chain"]
        msg, _ = run_chain(tuple(x_ph), prov, n, cfg)
        return msg
    rules = [((tuple(r[0]), r[1]), (tuple(r[2]), r[3]) + tuple(r[4:])) for r in sc["rules"]]
    guarded = sc.get("sparse") == "guarded"
    msg, _ = run_scenario(rules, sc["history"], cfg, sparse=(sc.get("sparse") is True),
                          mixed=sc.get("mixed", False), guarded=guarded,
                          vals={"g1": True, "v1": True} if guarded else None)
    return msg

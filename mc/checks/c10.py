"""C10 - the current state is exactly what the user's model stores.

Typed state-value alphabets (str incl. '', int incl. 0 and negatives, enum members, tuples,
mixed) x initial-state position x model shapes (default, plain attribute, property-backed,
class-level default, falsy via __len__, falsy via __bool__, MachineMixin) x state_field names
x start_value (unset, every state value, unmapped).  Exploration: from every stored value every
operation (events, valid external writes through sm.current_state_value / sm.current_state /
setattr(model), invalid writes) and every operation pair from a fresh machine.  Invariants after
every operation and inside every callback: the model field holds exactly the expected value
(type included), current_state / current_state_value / is_active agree with it, exactly one
state is active, sm.model is the user's object, invalid writes raise InvalidStateValue and
store nothing.
"""

import enum
import itertools

from ..drive import Pair
from ..par import BlockResult, Hang, deadline, run_blocks
from ..ref import Cfg
from ..report import Report
from ..spec import M, S, T, _mk, build

PID = "C10"


class Color(enum.Enum):
    R = 0
    G = 1
    B = "b"


ALPHABETS = {
    "default-ids": (None, None, None),
    "str": ("a", "b", ""),
    "int": (0, 1, -1),
    "int2": (2, 0, 7),
    "enum": (Color.R, Color.G, Color.B),
    "tuple": ((), (1,), (1, 2)),
    "mixed": (0, "", (0,)),
    "float-bool": (0.5, False, "x"),
}
FIELDS = ("state", "status", "_s")
SHAPES = ("default", "plain", "property", "classdefault", "falsy-len", "falsy-bool", "mixin",
          # objects that are mappings as well (an ODM document, a UserDict record): the state
          # lives in the attribute `state_field` all the same; no such attribute exists before
          # the machine is built, and the (empty) object is falsy
          "mapping", "userdict")
CFGS = (Cfg("sync", True, False, "direct"), Cfg("sync", False, False, "direct"),
        Cfg("async", True, False, "facade"))
BAD = ("zz", 99, (9,), 1.5)


def machine(alpha, init_pos, asyn, model_cbs=True):
    vals = ALPHABETS[alpha]
    fl = "a" if asyn else ""
    states = []
    for i in range(3):
        # s1 and s2 share one display *name*
        states.append(S(f"s{i}", initial=(i == init_pos), value=vals[i],
                        name=None if i == 0 else "Same"))
    trans = []
    for i in range(3):
        trans.append(T(f"s{i}", f"s{(i + 1) % 3}", ("n",)))
        trans.append(T(f"s{i}", f"s{(i + 2) % 3}", ("p",)))
        trans.append(T(f"s{i}", f"s{i}", ("k",), internal=True))
    prov = []
    for p in (("sm", "model") if model_cbs else ("sm",)):
        for nm in ("before_transition", "on_exit_state", "on_transition", "on_enter_state",
                   "after_transition"):
            prov.append((p, nm, fl))
    return M(states=tuple(states), trans=tuple(trans), provided=tuple(prov))


_MODEL_METHODS = ("before_transition", "on_exit_state", "on_transition", "on_enter_state",
                  "after_transition")


def make_model(shape, field, asyn, built_cls=None):
    fl = "a" if asyn else ""
    ns = {"_prov": "model"}
    for nm in _MODEL_METHODS:
        ns[nm] = _mk(nm, fl)
    if shape == "default":
        return None
    if shape == "plain":
        def init(self):
            setattr(self, field, None)
        ns["__init__"] = init
    elif shape == "property":
        def init(self):
            self._db = {}
        ns["__init__"] = init
        ns[field] = property(lambda self: self._db.get("v"),
                             lambda self, v: self._db.__setitem__("v", v))
    elif shape == "classdefault":
        ns[field] = None
    elif shape == "falsy-len":
        ns[field] = None
        ns["__len__"] = lambda self: 0
    elif shape == "falsy-bool":
        ns[field] = None
        ns["__bool__"] = lambda self: False
    elif shape in ("mapping", "userdict"):
        import collections
        base = dict if shape == "mapping" else collections.UserDict
        ns["__hash__"] = object.__hash__
        ns["__eq__"] = lambda self, other: self is other
        return type("UserModel", (base,), ns)()
    else:
        raise AssertionError(shape)
    return type("UserModel", (), ns)()


def field_value(model, field):
    return getattr(model, field, None)


def same(a, b):
    if isinstance(a, enum.Enum) or isinstance(b, enum.Enum):
        return a is b
    return type(a) is type(b) and a == b


def invariants(p, user_model, field):
    sm = p.impl.sm
    exp = p.ref.value
    mod = sm.model
    if user_model is not None and mod is not user_model:
        return f"sm.model is not the user's model object ({type(mod).__name__} instead)"
    got = field_value(mod, field)
    if not same(got, exp):
        return f"model.{field} holds {got!r} ({type(got).__name__}), expected {exp!r}"
    if exp is None:
        return None
    try:
        csv = sm.current_state_value
        cs = sm.current_state
        want = p.ref.cur()
        if not same(csv, exp):
            return f"current_state_value {csv!r} != stored {exp!r}"
        if cs.id != want.id or not same(cs.value, want.val):
            return f"current_state is {cs.id}/{cs.value!r}, expected {want.id}/{want.val!r}"
        act = [s.id for s in sm.states if getattr(sm, s.id).is_active]
        if act != [want.id]:
            return f"is_active: expected exactly [{want.id}] observed {act}"
    except Exception as e:
        return f"views raised {type(e).__name__}: {e}"
    return None


def do_op(p, op, user_model, field):
    """Executes one operation on implementation and reference; returns message|None."""
    from statemachine.exceptions import InvalidStateValue
    sm = p.impl.sm
    m = p.built.m
    k = op[0]
    if k == "ev":
        return p.send(op[1], {}, tag=op[2])
    if k == "setval":
        v = m.state(op[1]).val
        sm.current_state_value = v
        p.ref.value = v
        return None
    if k == "setstate":
        st = getattr(sm, op[1]) if op[2] == "inst" else getattr(type(sm), op[1])
        sm.current_state = st
        p.ref.value = m.state(op[1]).val
        return None
    if k == "setattr":
        v = m.state(op[1]).val
        setattr(sm.model, field, v)
        p.ref.value = v
        return None
    if k == "bad-setval":
        try:
            sm.current_state_value = op[1]
        except InvalidStateValue as e:
            if getattr(e, "value", op[1]) != op[1]:
                return f"InvalidStateValue carries {e.value!r}, expected {op[1]!r}"
            return None
        except Exception as e:
            return f"invalid write raised {type(e).__name__} instead of InvalidStateValue"
        return f"writing unmapped value {op[1]!r} was accepted"
    if k == "bad-setstate":
        # a State object that does not belong to this machine (unmapped value)
        from statemachine import State
        foreign = State("Foreign", value=op[1])
        foreign._set_id("foreign")
        try:
            sm.current_state = foreign
        except InvalidStateValue:
            return None
        except Exception as e:
            return f"assigning a foreign State raised {type(e).__name__} instead of InvalidStateValue"
        return f"assigning a foreign State with unmapped value {op[1]!r} was accepted"
    if k == "bad-setstate-like":
        # a State of another machine class that looks like one of ours (same id and name) but
        # carries a value this machine does not map
        from statemachine import State
        own = getattr(type(sm), op[1])
        foreign = State(own.name, value=op[2])
        foreign._set_id(own.id)
        try:
            sm.current_state = foreign
        except InvalidStateValue:
            return None
        except Exception as e:
            return (f"assigning a look-alike foreign State raised {type(e).__name__} instead of "
                    f"InvalidStateValue")
        return (f"assigning a foreign State (same id/name as {op[1]}, unmapped value {op[2]!r}) "
                f"was accepted")
    if k == "ev-write":
        # an event during which one callback writes another valid value to the model: the
        # transition still assigns its target after `on` (the value written in before/exit/on is
        # overwritten, a value written in enter/after stays)
        ev, phase, sid, tag = op[1], op[2], op[3], op[4]
        name = {"before": "before_transition", "exit": "on_exit_state", "on": "on_transition",
                "enter": "on_enter_state", "after": "after_transition"}[phase]
        rules = {(("sm", name), ev): (("=" + sid,), 1)}
        p.ref.plan.rules.clear()
        p.ref.plan.rules.update(rules)
        p.ref.fired.clear()
        p.impl.env.fired.clear()
        return p.send(ev, {}, tag=tag)
    if k == "bad-setattr":
        old = field_value(sm.model, field)
        setattr(sm.model, field, op[1])
        try:
            sm.current_state
        except InvalidStateValue:
            pass
        except Exception as e:
            setattr(sm.model, field, old)
            return f"reading current_state over an unmapped value raised {type(e).__name__}"
        else:
            setattr(sm.model, field, old)
            return "current_state did not raise over an unmapped stored value"
        setattr(sm.model, field, old)
        return None
    raise AssertionError(op)


def ops_alphabet(m, i):
    ops = [("ev", "n", f"e{i}"), ("ev", "p", f"e{i}"), ("ev", "k", f"e{i}")]
    for s in m.states:
        ops += [("setval", s.id), ("setstate", s.id, "inst"), ("setstate", s.id, "cls"),
                ("setattr", s.id)]
    ops += [("bad-setval", b) for b in BAD] + [("bad-setattr", BAD[0]), ("bad-setattr", BAD[1])]
    ops += [("bad-setstate", BAD[0]), ("bad-setstate", BAD[1])]
    ops += [("bad-setstate-like", m.states[0].id, BAD[0]), ("bad-setstate-like", m.states[-1].id, BAD[1])]
    for ev in ("n", "k"):
        for phase in ("before", "on", "enter", "after"):
            if ev == "k" and phase == "enter":
                continue
            for s in m.states[:2]:
                ops.append(("ev-write", ev, phase, s.id, f"w{i}"))
    return ops


def scenario(res, alpha, init_pos, shape, field, cfg, start, hist_len, sc_base):
    """start: None | ('sv', idx) start_value=value of state idx | ('sv-bad',) |
    ('stored', idx) model already holds value idx"""
    from statemachine.exceptions import InvalidStateValue
    asyn = cfg.engine == "async"
    m = machine(alpha, init_pos, asyn, model_cbs=(shape != "default"))
    built = build(m)
    vals = [s.val for s in m.states]
    seqs = [()]
    first = ops_alphabet(m, 0)
    seqs += [(o,) for o in first]
    if hist_len >= 2:
        small = [o for o in first if o[0] in ("ev", "setval", "bad-setval")][:6] + \
                [o for o in first if o[0] in ("setattr", "setstate")][:2]
        seqs += [(a, b[:2] + (("e1",) if b[0] == "ev" else b[2:])) for a in small for b in small]
    # another instance of the same class was created (and activated) first, started elsewhere:
    # where this class's earlier instances started must not matter to the instances under test
    if shape != "mixin":
        from ..drive import Impl
        k0 = start[1] if start and start[0] in ("sv", "stored") else init_pos
        warm = Impl(built, cfg, start_value=vals[(k0 + 1) % len(vals)])
        warm.construct()
        if asyn:
            warm.activate()
    for seq in seqs:
        user_model = make_model(shape, field, asyn) if shape != "mixin" else None
        kw = {}
        stored = None
        start_value = None
        if start and start[0] == "sv":
            start_value = vals[start[1]]
        elif start and start[0] == "sv-bad":
            start_value = "unmapped!"
        elif start and start[0] == "stored":
            stored = vals[start[1]]
            if user_model is not None:
                setattr(user_model, field, stored)
        from ..env import Plan
        p = Pair(built, cfg, plan=Plan(), stored=stored, start_value=start_value, deep=True,
                 model=user_model, state_field=field)
        if shape == "mixin":
            p.impl.mixin = True
            p.impl.mixin_field = field
        if shape == "default" and stored is not None:
            from statemachine.model import Model
            user_model = Model()
            try:
                setattr(user_model, field, stored)
            except Exception as e:   # noqa: BLE001
                res.violation({"category": "model.", "shape": shape, "alphabet": alpha,
                               "start": "stored", "engine": cfg.engine}, dict(sc_base, seq=[]),
                              f"the default Model cannot hold field {field!r}: "
                              f"{type(e).__name__}: {e}")
                continue
            p.impl.model = user_model
        try:
            msg = p.construct()
        except Exception as e:   # noqa: BLE001
            msg = f"constructing the machine raised {type(e).__name__}: {e}"
        # async machines activate lazily: in half of the sequences the first operation (possibly
        # an external write) happens *before* any activation
        lazy = asyn and seq and (hash(repr(seq)) % 2 == 0 or seq[0][0] in ("setval", "setattr"))
        if msg is None and asyn and not lazy:
            msg = p.activate()
        res.stats["evaluations"] += 1
        res.stats["transitions"] += 1
        if msg is None and p.last[0].kind == "exc":
            res.hist["construct-raises"] += 1
            continue    # unmapped start_value: constructor/activation raised as expected
        if msg is None and not lazy:
            msg = invariants(p, user_model, field)
        ops_done = []
        if msg is None:
            for op in seq:
                ops_done.append(op)
                try:
                    msg = do_op(p, op, user_model, field)
                except InvalidStateValue as e:
                    msg = f"{op}: unexpected InvalidStateValue({e.value!r})"
                except Exception as e:
                    msg = f"{op}: raised {type(e).__name__}: {e}"
                res.stats["transitions"] += 1
                res.hist[op[0]] += 1
                if msg is None:
                    msg = invariants(p, user_model, field)
                if msg:
                    msg = f"after {op}: {msg}"
                    break
        if msg:
            res.violation({"category": _cat(msg), "shape": shape, "alphabet": alpha,
                           "start": start[0] if start else None, "engine": cfg.engine},
                          dict(sc_base, ops=[list(map(repr, o)) for o in ops_done],
                               seq=[list(o) for o in seq]), msg)
    res.stats["states"] += 3


def _cat(msg):
    for key in ("not the user's model", "model.", "current_state_value", "current_state is",
                "is_active", "views raised", "accepted", "InvalidStateValue", "stored state",
                "trace", "exception", "outcome kind"):
        if key in msg:
            return key
    return "other"


def space(tier):
    out = []
    for alpha in ALPHABETS:
        for init_pos in (0, 1, 2) if alpha in ("int", "str", "mixed") else (0, 1):
            for shape in SHAPES:
                for field in FIELDS:
                    if tier == "quick" and field != "state" and shape not in ("plain", "property",
                                                                             "default"):
                        continue
                    for ci, cfg in enumerate(CFGS):
                        if shape == "mixin" and ci != 0:
                            continue
                        starts = [None, ("sv", 0), ("sv", 1), ("sv", 2), ("sv-bad",),
                                  ("stored", 0), ("stored", 1), ("stored", 2)]
                        if shape == "mixin":
                            starts = [None, ("stored", 0), ("stored", 1), ("stored", 2)]
                        for st in starts:
                            out.append((alpha, init_pos, shape, field, ci, st))
    return out


def worker(block):
    tier, lo, hi = block
    res = BlockResult()
    hist_len = 1 if tier == "quick" else 2
    for (alpha, init_pos, shape, field, ci, st) in space(tier)[lo:hi]:
        sc = {"alphabet": alpha, "init_pos": init_pos, "shape": shape, "field": field,
              "cfg_index": ci, "start": list(st) if st else None}
        try:
            with deadline(60):
                scenario(res, alpha, init_pos, shape, field, CFGS[ci], st,
                         2 if (tier == "thorough" or (shape in ("plain", "default")
                                                     and field == "state")) else 1, sc)
        except Hang:
            res.violation({"category": "hang"}, sc, "scenario hung")
    if lo == 0:
        res.samples.append({"alphabet": "int", "values": [0, 1, -1], "shape": "falsy-len",
                            "ops": ["setval s0", "ev n", "bad-setval 'zz'"]})
    return res


def run(tier, seed):
    rep = Report(PID, tier, seed)
    n = len(space(tier))
    step = 12
    blocks = [(tier, i, min(i + step, n)) for i in range(0, n, step)]
    total, capped = run_blocks(worker, blocks, seed=seed)
    rep.add_violations(total.violations, total.hist_sig)
    rep.harness_errors = total.stats.get("harness_errors", 0)
    rep.notes.extend(total.notes)
    rep.coverage = {
        "states": total.stats["states"],
        "transitions": total.stats["transitions"],
        "traces_validated_against_impl": total.stats["evaluations"],
        "configurations": n,
        "alphabets": {k: [repr(v) for v in vs] for k, vs in ALPHABETS.items()},
        "shapes": list(SHAPES), "fields": list(FIELDS),
        "outcome_histogram": dict(total.hist),
        "samples": total.samples or [{"note": "no sample"}],
        "rule": "states = (configuration, stored value) nodes; transitions = operations (events, "
                "valid/invalid external writes, construction) after each of which all invariants "
                "are evaluated, and inside every callback via the deep recorder",
        "violations_total": total.stats.get("violations_total", 0),
    }
    rep.assumptions = ["reference store semantics in mc/ref.py",
                       "state values within one machine are pairwise unequal (False/0 never mixed)"]
    return rep.finish(exhaustive=not capped)


def replay(sc):
    res = BlockResult()
    st = tuple(sc["start"]) if sc["start"] else None
    scenario(res, sc["alphabet"], sc["init_pos"], sc["shape"], sc["field"],
             CFGS[sc["cfg_index"]], st, 2, sc)
    want = sc.get("seq")
    for v in res.violations:
        if want is None or v["scenario"].get("seq") == want:
            return v["message"]
    return res.violations[0]["message"] if res.violations and want is None else None

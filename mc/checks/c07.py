"""C07 - callbacks receive exactly the parameters they declare.

Space: every parameter list up to N parameters in a valid kind order over {positional-only,
positional-or-keyword, *args, keyword-only, **kwargs}, names from {source, event (built-ins),
x, y (user kwargs), z (never supplied)}, each non-variadic parameter with/without default;
callable kinds (function, bound method, partial, coroutine function, lambda); call shapes:
0-3 positionals x every subset of user keywords {x, y, source= (attempted override),
event_data= (attempted override), extra}.
Seam (a): the adapter `callable_method(fn)` fed the args / extended kwargs the engine builds.
Seam (b): end to end, `sm.send("go", *args, **kw)` with the callable as the transition's `on`.
Sub-checks: *independence* (all ordered pairs of same-named callbacks with different shapes bound
one after the other in one process) and *forwarding* (kwargs forwarded to a nested event).
Oracle: an independent slot-aligned reference binder working from inspect.signature.
"""

import functools
import inspect
import itertools

from ..par import BlockResult, Hang, deadline, run_blocks
from ..report import Report

PID = "C07"
PO, POK, VARPOS, KO, VARKW = "po", "pok", "varpos", "ko", "varkw"
NAMES = ("source", "event", "x", "y", "z")
BUILTIN_NAMES = ("event_data", "machine", "event", "model", "transition", "state", "source",
                 "target")
USER_KW = ("x", "y", "source", "event_data", "extra")


class _Req:
    """marker: required parameter without any source"""


# -- signature space ------------------------------------------------------------------------

def kind_sequences(n):
    """All valid kind sequences of length n."""
    out = []
    for npo in range(n + 1):
        for npok in range(n + 1 - npo):
            for var in (0, 1):
                for nko in range(n + 1 - npo - npok - var):
                    for vkw in (0, 1):
                        if npo + npok + var + nko + vkw == n:
                            out.append([PO] * npo + [POK] * npok + [VARPOS] * var + [KO] * nko +
                                       [VARKW] * vkw)
    return out


def signatures(maxlen, names=NAMES):
    """Yields tuples of (kind, name, has_default)."""
    for n in range(0, maxlen + 1):
        for kinds in kind_sequences(n):
            named = [k for k in kinds if k in (PO, POK, KO)]
            for nm in itertools.permutations(names, len(named)):
                # positional defaults must be a suffix of the positional parameters
                npos = sum(1 for k in kinds if k in (PO, POK))
                nko = sum(1 for k in kinds if k == KO)
                for dpos in range(npos + 1):           # number of trailing defaulted positionals
                    for dko in itertools.product((False, True), repeat=nko):
                        sig = []
                        it = iter(nm)
                        pi = 0
                        ki = 0
                        for k in kinds:
                            if k in (PO, POK):
                                sig.append((k, next(it), pi >= npos - dpos))
                                pi += 1
                            elif k == KO:
                                sig.append((k, next(it), dko[ki]))
                                ki += 1
                            elif k == VARPOS:
                                sig.append((k, "args", False))
                            else:
                                sig.append((k, "kwargs", False))
                        yield tuple(sig)


def render(sig, asyn=False, with_self=False, name="cb"):
    parts = []
    if with_self:
        parts.append("self")
    seen_slash = False
    npo = sum(1 for s in sig if s[0] == PO)
    star_done = False
    for i, (k, nm, d) in enumerate(sig):
        if k in (PO, POK):
            parts.append(f"{nm}='D_{nm}'" if d else nm)
            if k == PO and sum(1 for s in sig[:i + 1] if s[0] == PO) == npo and not seen_slash:
                parts.append("/")
                seen_slash = True
        elif k == VARPOS:
            parts.append("*args")
            star_done = True
        elif k == KO:
            if not star_done:
                parts.append("*")
                star_done = True
            parts.append(f"{nm}='D_{nm}'" if d else nm)
        else:
            parts.append("**kwargs")
    if with_self and npo and False:
        pass
    plist = ", ".join(parts)
    if with_self and npo:
        # `self` must be positional-only too when there are positional-only parameters
        plist = plist.replace("self, ", "self, ", 1)
    body = "    _l = dict(locals()); _l.pop('self', None); return _l"
    src = f"{'async ' if asyn else ''}def {name}({plist}):\n{body}\n"
    return src


def make_callable(sig, kind, uniq):
    """kind: function | method | partial | lambda | coroutine.  `uniq` gives a unique qualname so
    that the library's process-wide signature cache cannot alias two generated callables (aliasing
    is the subject of the independence sub-check)."""
    ns = {}
    if kind == "method-noself":
        # a bound method whose function has no explicit `self`: the instance arrives in *args
        # (a method wrapped by a decorator written without functools.wraps has this shape)
        src = render(sig).replace("_l = dict(locals());",
                                  "_l = dict(locals()); _l['args'] = _l['args'][1:];")
        src = "class H:\n" + "".join("    " + ln + "\n" for ln in src.splitlines())
        exec(src, ns)   # noqa: S102 - generated source
        H = ns["H"]
        H.__qualname__ = f"HN{uniq}"
        H.cb.__qualname__ = f"HN{uniq}.cb"
        return H().cb
    if kind == "method":
        src = "class H:\n" + "".join("    " + ln + "\n" for ln in
                                     render(sig, with_self=True).splitlines())
        exec(src, ns)   # noqa: S102 - generated source
        H = ns["H"]
        H.__qualname__ = f"H{uniq}"
        H.cb.__qualname__ = f"H{uniq}.cb"
        return H().cb
    src = render(sig, asyn=(kind == "coroutine"))
    exec(src, ns)   # noqa: S102
    fn = ns["cb"]
    fn.__qualname__ = f"cb{uniq}"
    if kind == "partial":
        return functools.partial(fn)
    if kind == "lambda":
        return fn
    return fn


# -- reference binder ---------------------------------------------------------------------------

def ref_bind(params, args, kwargs):
    """params: list of inspect.Parameter.  Returns dict name->value or raises TypeError.
    Slot-aligned: positional arguments align to positional parameter slots in order; a slot whose
    (non positional-only) name is supplied by keyword takes the keyword value (and consumes the
    positional); surplus positionals go to *args or are dropped; keyword-only and unfilled named
    parameters take same-named keywords or their default; **kwargs gets the unconsumed keywords."""
    P = inspect.Parameter
    kwargs = dict(kwargs)
    bound = {}
    i = 0
    args = list(args)
    for p in params:
        if p.kind not in (P.POSITIONAL_ONLY, P.POSITIONAL_OR_KEYWORD):
            continue
        if i < len(args):
            if p.kind is P.POSITIONAL_OR_KEYWORD and p.name in kwargs:
                bound[p.name] = kwargs.pop(p.name)
            else:
                bound[p.name] = args[i]
            i += 1
        else:
            if p.kind is P.POSITIONAL_OR_KEYWORD and p.name in kwargs:
                bound[p.name] = kwargs.pop(p.name)
            elif p.default is not P.empty:
                bound[p.name] = p.default
            else:
                raise TypeError(f"required parameter {p.name} has no source")
    rest = tuple(args[i:])
    for p in params:
        if p.kind is P.VAR_POSITIONAL:
            bound[p.name] = rest
        elif p.kind is P.KEYWORD_ONLY:
            if p.name in kwargs:
                bound[p.name] = kwargs.pop(p.name)
            elif p.default is not P.empty:
                bound[p.name] = p.default
            else:
                raise TypeError(f"required keyword-only parameter {p.name} has no source")
    for p in params:
        if p.kind is P.VAR_KEYWORD:
            bound[p.name] = kwargs
    return bound


BUILTINS = {n: f"B_{n}" for n in BUILTIN_NAMES}


def call_shapes():
    out = []
    for npos in range(0, 4):
        args = tuple(f"p{i}" for i in range(npos))
        for r in range(len(USER_KW) + 1):
            for ks in itertools.combinations(USER_KW, r):
                out.append((args, {k: f"U_{k}" for k in ks}))
        # user keywords that are called like the variadic parameters themselves
        for vk in (("args",), ("kwargs",), ("args", "kwargs")):
            for base in ((), ("x",)):
                out.append((args, {k: f"U_{k}" for k in vk + base}))
    return out


def engine_kwargs(user_kw):
    """What the engine passes: user kwargs minus the reserved names, built-ins layered on top."""
    kw = {k: v for k, v in user_kw.items() if k not in BUILTIN_NAMES}
    kw.update(BUILTINS)
    return kw


def run_sync(fn, args, kwargs):
    r = fn(*args, **kwargs)
    if inspect.isawaitable(r):
        try:
            r.send(None)
        except StopIteration as e:
            return e.value
        raise AssertionError("generated coroutine suspended")
    return r


FALSY = {"p0": 0, "p1": "", "p2": None, "U_x": False, "U_y": (), "U_extra": 0.0,
         "U_source": b"", "U_event_data": frozenset(), "U_args": 0j, "U_kwargs": range(0)}
FALSY_BUILTINS = {f"B_{n}": v for n, v in zip(
    BUILTIN_NAMES, (None, 0, "", False, (), 0.0, b"", frozenset()))}


def falsify(v, mode):
    """mode 'kw': keywords and built-ins falsy, positionals as they are; 'all': positionals too."""
    if isinstance(v, str):
        if v in FALSY_BUILTINS:
            return FALSY_BUILTINS[v]
        if v in FALSY and (mode == "all" or not v.startswith("p")):
            return FALSY[v]
    return v


def canon(v):
    """Typed canonical form, so that 0, False, 0.0, '' and () never compare equal."""
    if v is TypeError:
        return "TypeError"
    if isinstance(v, dict):
        return ("dict", tuple(sorted((k, canon(x)) for k, x in v.items())))
    if isinstance(v, tuple):
        return ("tuple", tuple(canon(x) for x in v))
    return (type(v).__name__, repr(v))


def _adapter():
    """The library's adapter factory (an internal seam).  When the tree under test has moved or
    renamed it the adapter-level sub-checks have no opinion (the end-to-end seam still runs)."""
    try:
        from statemachine.dispatcher import callable_method
        return callable_method
    except ImportError:
        return None


def check_seam_a(res, sig, kind, shapes, uniq, falsy=None):
    callable_method = _adapter()
    if callable_method is None:
        res.stats["seam_a_unavailable"] = 1
        return
    if falsy:
        shapes = [(tuple(falsify(a, falsy) for a in args),
                   {k: falsify(v, falsy) for k, v in ukw.items()}) for (args, ukw) in shapes]
    fn = make_callable(sig, kind, uniq)
    params = list(inspect.signature(fn).parameters.values())
    try:
        wrapped = callable_method(fn)
    except Exception as e:
        res.violation({"category": "adapter-construction", "kind": kind},
                      {"sig": [list(s) for s in sig], "kind": kind},
                      f"callable_method raised {type(e).__name__}: {e}")
        return
    for si, (args, ukw) in enumerate(shapes):
        kw = engine_kwargs(ukw)
        if falsy:
            kw = {k: falsify(v, falsy) for k, v in kw.items()}
        try:
            exp = ref_bind(params, args, kw)
        except TypeError:
            exp = TypeError
        try:
            got = run_sync(wrapped, args, dict(kw))
        except TypeError:
            got = TypeError
        except Exception as e:
            got = ("EXC", type(e).__name__, str(e))
        res.stats["evaluations"] += 1
        if exp is TypeError and got is TypeError:
            res.hist["typeerror-expected"] += 1
            continue
        if falsy:
            if canon(exp) != canon(got):
                sg = _sig_of(sig, kind, args, ukw, exp, got)
                if sg["category"] == "binding":
                    sg["category"] = "binding-falsy-values"
                res.violation(sg, {"seam": "a", "sig": [list(s) for s in sig], "kind": kind,
                                   "falsy": falsy, "shape": si},
                              f"{render(sig).splitlines()[0]} [{kind}] called with falsy values "
                              f"args={args!r} user_kw={ukw!r} (built-ins falsy too): expected "
                              f"{_fmt(exp)} got {_fmt(got)}")
            else:
                res.hist["bound-ok-falsy"] += 1
            continue
        if exp != got:
            res.violation(_sig_of(sig, kind, args, ukw, exp, got),
                          {"seam": "a", "sig": [list(s) for s in sig], "kind": kind,
                           "args": list(args), "user_kw": ukw},
                          f"{render(sig).splitlines()[0]} [{kind}] called with args={args} "
                          f"user_kw={sorted(ukw)}: expected {_fmt(exp)} got {_fmt(got)}")
        else:
            res.hist["bound-ok"] += 1


def _fmt(v):
    return "TypeError" if v is TypeError else repr(v)


def _sig_of(sig, kind, args, ukw, exp, got):
    """Canonical signature of a disagreement (root-cause category for known-finding matching)."""
    cat = "binding"
    supplied = set(BUILTIN_NAMES) | {k for k in ukw if k not in BUILTIN_NAMES}
    po_idx = [i for i, s in enumerate(sig) if s[0] == PO]
    npos = sum(1 for s in sig if s[0] in (PO, POK))
    has_varpos = any(s[0] == VARPOS for s in sig)
    has_ko = any(s[0] == KO for s in sig)
    if got is TypeError and exp is not TypeError and \
            any(sig[i][1] in supplied and i >= len(args) for i in po_idx):
        # a positional-only parameter named like a supplied keyword that no positional reaches
        cat = "positional-only-named-like-keyword"
    elif has_ko and not has_varpos and len(args) > npos:
        cat = "keyword-only-after-surplus-positionals"
    return {"category": cat, "kind": kind}


# -- seam (b): end to end -------------------------------------------------------------------------

def check_seam_b(res, sig, kind, shapes, uniq):
    from statemachine import State, StateMachine
    from statemachine.factory import StateMachineMetaclass
    fn = make_callable(sig, kind if kind != "method" else "function", uniq)
    params = list(inspect.signature(fn).parameters.values())
    a, b, c = State(initial=True), State(), State()
    # a first candidate that is always rejected by its guard: the built-ins handed to the
    # callback of the second candidate describe the second candidate
    ns = {"a": a, "b": b, "c": c, "never": False,
          "go": a.to(c, cond="never") | a.to(b, on=fn) | b.to(c, cond="never") | b.to(a, on=fn),
          "rest": c.to(a)}
    try:
        cls = StateMachineMetaclass("M7", (StateMachine,), ns)
        sm = cls()
        sm.activate_initial_state()
    except Exception as e:
        res.violation({"category": "e2e-construction", "kind": kind},
                      {"seam": "b", "sig": [list(s) for s in sig], "kind": kind},
                      f"machine construction raised {type(e).__name__}: {e}")
        return
    for (args, ukw) in shapes:
        src = sm.current_state
        want_kw = {k: v for k, v in ukw.items() if k not in BUILTIN_NAMES}
        try:
            got = sm.send("go", *args, **ukw)
        except TypeError:
            got = TypeError
        except Exception as e:
            got = ("EXC", type(e).__name__, str(e))
        res.stats["evaluations"] += 1
        # expected: reference binder over the real built-in objects
        real = dict(want_kw)
        if got is not TypeError and not (isinstance(got, tuple) and got and got[0] == "EXC"):
            ed = None
            # fetch the built-ins the engine used from what the callback saw, where visible
            for p in params:
                if p.name == "event_data":
                    ed = got.get("event_data")
        tr = [t for t in src.transitions if t.target.id != "c"][0]
        built = {"machine": sm, "model": sm.model, "transition": tr, "state": src, "source": src,
                 "target": tr.target, "event": "go"}
        real.update(built)
        real["event_data"] = _ANY
        try:
            exp = ref_bind(params, args, real)
        except TypeError:
            exp = TypeError
        if exp is TypeError or got is TypeError:
            if exp is not got:
                sg = _sig_of(sig, kind, args, ukw, exp, got)
                sg["category"] = "e2e-" + sg["category"]
                res.violation(sg,
                              {"seam": "b", "sig": [list(s) for s in sig], "kind": kind,
                               "args": list(args), "user_kw": ukw},
                              f"e2e {render(sig).splitlines()[0]} args={args} kw={sorted(ukw)}: "
                              f"expected {_fmt(exp)} got {_fmt(got)}")
            if got is TypeError:
                # state unchanged by the failed `on`; keep going from wherever we are
                pass
            continue
        msg = _cmp_e2e(exp, got, ukw)
        if msg:
            sg = _sig_of(sig, kind, args, ukw, exp, got)
            sg["category"] = "e2e-" + sg["category"]
            res.violation(sg,
                          {"seam": "b", "sig": [list(s) for s in sig], "kind": kind,
                           "args": list(args), "user_kw": ukw},
                          f"e2e {render(sig).splitlines()[0]} args={args} kw={sorted(ukw)}: {msg}")
        else:
            res.hist["e2e-ok"] += 1


class _Any:
    def __repr__(self):
        return "<event_data>"


_ANY = _Any()


def _cmp_e2e(exp, got, ukw):
    if not isinstance(got, dict):
        return f"callback result is {got!r}"
    if set(exp) != set(got):
        return f"parameters bound {sorted(got)} expected {sorted(exp)}"
    for k, ev in exp.items():
        gv = got[k]
        if k == "kwargs":
            if set(ev) != set(gv):
                return f"**kwargs keys {sorted(gv)} expected {sorted(ev)}"
            for kk, vv in ev.items():
                r = _cmp_val(kk, vv, gv[kk])
                if r:
                    return f"**kwargs[{kk}]: {r}"
            for bad in ("U_source", "U_event_data"):
                if bad in [v for v in gv.values() if isinstance(v, str)]:
                    return f"user override {bad} leaked into **kwargs"
            continue
        r = _cmp_val(k, ev, gv)
        if r:
            return f"{k}: {r}"
    return None


def _cmp_val(name, ev, gv):
    if ev is _ANY:
        if type(gv).__name__ != "EventData":
            return f"expected the EventData object, got {gv!r}"
        if str(gv.event) != "go":
            return f"event_data describes event {gv.event!r}"
        return None
    if name == "event" and isinstance(ev, str) and ev == "go":
        return None if str(gv) == "go" else f"expected event 'go' got {gv!r}"
    if isinstance(ev, (str, tuple)):
        return None if ev == gv else f"expected {ev!r} got {gv!r}"
    if gv is ev or gv == ev:
        return None
    return f"expected {ev!r} got {gv!r}"


# -- independence -----------------------------------------------------------------------------

FAMILY = [
    "def cb(source): pass",
    "def cb(source, *args): pass",
    "def cb(source, args): pass",
    "def cb(source, args=None): pass",
    "def cb(x, *, source): pass",
    "def cb(x, source): pass",
    "def cb(x, source, /): pass",
    "def cb(source, **kwargs): pass",
    "def cb(source, kwargs): pass",
    "async def cb(source): pass",
    "async def cb(source, *args): pass",
    "def cb(event, *args, **kwargs): pass",
    "def cb(event, args, kwargs): pass",
    "def cb(*, event, args=1, kwargs=2): pass",
]


def _partial_base(source, event, x="D_x", y="D_y"):
    return dict(locals())


PARTIALS = [{}, {"x": "FX"}, {"event": "FE"}, {"source": "FS"}, {"y": "FY", "x": "FX2"}]


def _shared_decorator(fn):
    """An ordinary decorator using functools.wraps: every decorated callback shares the wrapper's
    code object and copies the wrapped function's qualified name."""
    if inspect.iscoroutinefunction(fn):
        @functools.wraps(fn)
        async def awrapper(*args, **kwargs):
            return await fn(*args, **kwargs)
        return awrapper

    @functools.wraps(fn)
    def wrapper(*args, **kwargs):
        return fn(*args, **kwargs)
    return wrapper


def _other_asyncness(fn):
    if inspect.iscoroutinefunction(fn):
        @functools.wraps(fn)
        def swrapper(*args, **kwargs):
            co = fn(*args, **kwargs)
            try:
                co.send(None)
            except StopIteration as e:
                return e.value
            raise AssertionError("suspended")
        return swrapper

    @functools.wraps(fn)
    async def awrapper(*args, **kwargs):
        return fn(*args, **kwargs)
    return awrapper


def family_callable(i, variant):
    """variant: function | method | partial"""
    src = FAMILY[i].replace(": pass", ":\n    _l = dict(locals()); _l.pop('self', None); return _l")
    ns = {}
    if variant == "method":
        src = src.replace("def cb(", "def cb(self, ")
        src = "class L:\n" + "".join("    " + ln + "\n" for ln in src.splitlines())
        exec(src, ns)   # noqa: S102
        return ns["L"]().cb
    exec(src, ns)   # noqa: S102
    if variant == "wrapped":
        return _shared_decorator(ns["cb"])
    if variant == "partial":
        kw = {}
        params = inspect.signature(ns["cb"]).parameters
        for nm in ("args", "kwargs"):
            if nm in params and params[nm].kind in (inspect.Parameter.POSITIONAL_OR_KEYWORD,
                                                     inspect.Parameter.KEYWORD_ONLY):
                kw[nm] = f"FIX_{nm}_{i}"
        return functools.partial(ns["cb"], **kw)
    return ns["cb"]


def check_independence(res):
    callable_method = _adapter()
    if callable_method is None:
        res.stats["seam_a_unavailable"] = 1
        return
    shapes = [(("p0", "p1"), {"x": "U_x"}), ((), {"x": "U_x", "extra": "U_e"}),
              (("p0",), {"args": "U_args", "kwargs": "U_kwargs"})]
    try:
        from statemachine.signature import SignatureAdapter
        clear = getattr(getattr(SignatureAdapter.from_callable, "__func__", None),
                        "clear_cache", None)
    except ImportError:
        clear = None
    pairs = [(v, i, j) for v in ("function", "method", "partial", "wrapped")
             for i, j in itertools.permutations(range(len(FAMILY)), 2)]
    pairs += [("same-fn-partial", i, j) for i, j in itertools.permutations(range(len(PARTIALS)), 2)]
    # the very same function bound raw and through a wraps-wrapper of the other "asyncness"
    pairs += [("raw-vs-wrapper", i, o) for i in range(len(FAMILY)) for o in (0, 1)]
    for (variant, i, j) in pairs:
        if clear:
            clear()     # every ordered pair starts from an empty process-wide signature cache
        if True:
            if variant == "same-fn-partial":
                fns = [functools.partial(_partial_base, **PARTIALS[i]),
                       functools.partial(_partial_base, **PARTIALS[j])]
                FAM = [f"partial(cb, {PARTIALS[k]})" for k in range(len(PARTIALS))]
            elif variant == "raw-vs-wrapper":
                raw = family_callable(i, "function")
                fns = [raw, _other_asyncness(raw)]
                FAM = [FAMILY[i], f"{'sync' if inspect.iscoroutinefunction(raw) else 'async'} "
                       f"functools.wraps wrapper of `{FAMILY[i]}`"]
                if j:
                    fns.reverse()
                    FAM.reverse()
            else:
                fns = [family_callable(i, variant), family_callable(j, variant)]
                FAM = FAMILY
            fi, fj = (0, 1) if variant == "raw-vs-wrapper" else (i, j)
            for k, fn in enumerate(fns):
                params = list(inspect.signature(fn).parameters.values())
                try:
                    wrapped = callable_method(fn)
                    asyn_expected = inspect.iscoroutinefunction(fn)
                    if bool(getattr(wrapped, "is_coroutine", False)) != asyn_expected:
                        raise AssertionError(
                            f"adapter.is_coroutine={wrapped.is_coroutine} for "
                            f"{'async ' if asyn_expected else ''}callable")
                except AssertionError as e:
                    res.violation({"category": "independence", "variant": variant},
                                  {"independence": [i, j, variant]},
                                  f"after binding `{FAM[fi if k else fj]}` first, "
                                  f"`{FAM[fj if k else fi]}` [{variant}]: {e}")
                    continue
                for (args, ukw) in shapes:
                    kw = engine_kwargs(ukw)
                    kw.update({k2: v for k2, v in ukw.items() if k2 in ("args", "kwargs")})
                    try:
                        exp = ref_bind(params, args, kw)
                    except TypeError:
                        exp = TypeError
                    try:
                        got = run_sync(wrapped, args, dict(kw))
                    except TypeError:
                        got = TypeError
                    except Exception as e:
                        got = ("EXC", type(e).__name__, str(e))
                    res.stats["evaluations"] += 1
                    res.stats["independence_bindings"] += 1
                    if exp != got and not (exp is TypeError and got is TypeError):
                        first, second = (FAM[fi], FAM[fj])
                        res.violation(
                            {"category": "independence", "variant": variant},
                            {"independence": [i, j, variant], "args": list(args), "user_kw": ukw},
                            f"[{variant}] binding `{first}` and then `{second}` in one process: "
                            f"`{(first, second)[k]}` called with args={args} kw={sorted(ukw)} "
                            f"expected {_fmt(exp)} got {_fmt(got)}")


# -- forwarding ---------------------------------------------------------------------------------

def check_forwarding(res):
    from statemachine import State, StateMachine
    for asyn in (False, True):
        seen = []
        ns = {}
        exec(f'''
{"async " if asyn else ""}def on_parent(self, **kwargs):
    seen.append(("parent", str(kwargs["event"]), kwargs["source"].id, kwargs["target"].id, kwargs.get("x")))
    r = self.child(**kwargs)
    {"r = await r" if asyn else ""}

{"async " if asyn else ""}def on_child(self, event, source, target, event_data, x=None, **kwargs):
    seen.append(("child", str(event), source.id, target.id, x, str(event_data.event),
                 event_data.transition.source.id,
                 sorted((k, getattr(getattr(v, "source", None), "id", None) or getattr(v, "id", None))
                        for k, v in kwargs.items() if k in ("transition", "state"))))
''', {"seen": seen}, ns)
        a, b, c = State(initial=True), State(), State()

        class M(StateMachine):
            pass
        from statemachine.factory import StateMachineMetaclass
        cls = StateMachineMetaclass("MF", (StateMachine,), {
            "a": a, "b": b, "c": c, "parent": a.to(b, on="on_parent"),
            "child": b.to(c, on="on_child"), "back": c.to(a),
            "on_parent": ns["on_parent"], "on_child": ns["on_child"]})
        sm = cls()
        sm.parent(x="X1", source="evil", event_data="evil2", event="evil3")
        res.stats["evaluations"] += 1
        exp_child = ("child", "child", "b", "c", "X1", "child", "b")
        child = [s for s in seen if s[0] == "child"]
        if not child or child[0][:7] != exp_child:
            res.violation({"category": "forwarding"}, {"forwarding": asyn},
                          f"kwargs forwarded from a parent event: child callback saw {child}, "
                          f"expected built-ins of the child event {exp_child}")
        elif child[0][7] != [("state", "b"), ("transition", "b")]:
            res.violation({"category": "forwarding"}, {"forwarding": asyn},
                          f"the child's **kwargs carry the parent's built-ins: {child[0][7]}")
        else:
            res.hist["forwarding-ok"] += 1


# -- user keyword names ---------------------------------------------------------------------------

def library_parameter_names():
    """Every identifier a user keyword could collide with inside the library: the parameter names
    of every function and method of every statemachine module, and the fields of its
    dataclasses - collected from the tree under test, so the alphabet follows the code."""
    import dataclasses
    import importlib
    import pkgutil

    import statemachine
    names = set()
    mods = [statemachine]
    for mi in pkgutil.walk_packages(statemachine.__path__, "statemachine."):
        if ".contrib" in mi.name:
            continue
        try:
            mods.append(importlib.import_module(mi.name))
        except Exception:   # noqa: BLE001,S112 - optional modules
            continue

    def of_callable(f):
        code = getattr(f, "__code__", None)
        if code is not None:
            n = code.co_argcount + code.co_kwonlyargcount
            names.update(code.co_varnames[:n])

    for m in mods:
        for obj in list(vars(m).values()):
            if getattr(obj, "__module__", None) != m.__name__:
                continue
            if inspect.isfunction(obj):
                of_callable(obj)
            elif inspect.isclass(obj):
                if dataclasses.is_dataclass(obj):
                    names.update(f.name for f in dataclasses.fields(obj))
                for v in vars(obj).values():
                    v = getattr(v, "__func__", v)
                    v = getattr(v, "fget", v) if isinstance(v, property) else v
                    if inspect.isfunction(v):
                        of_callable(v)
    return sorted(n for n in names if n.isidentifier())


def check_user_names(res):
    """A user keyword argument with *any* non-reserved name reaches every callback of the event
    (declared by name, or through **kwargs) and never causes a TypeError - in particular names
    that the library itself uses for parameters or EventData/TriggerData fields."""
    from statemachine import State, StateMachine
    from statemachine.factory import StateMachineMetaclass
    reserved = set(BUILTIN_NAMES) | {"self"}
    names = [n for n in library_parameter_names() if n not in reserved]
    res.stats["user_names"] = len(names)
    for asyn in (False, True):
        for nm in names:
            seen = []
            ns = {"seen": seen}
            a_ = "async " if asyn else ""
            hooks = ("val", "cond", "before_go", "on_exit_a", "on_go", "on_enter_b", "after_go")
            src = ""
            for h in hooks:
                ret = "return True" if h == "cond" else "return None"
                # operands of guard expressions stay plain functions (coroutine operands inside
                # an expression are C05's known finding)
                a_ = "" if h == "cond" else ("async " if asyn else "")
                src += (f"{a_}def {h}(self, **kwargs):\n"
                        f"    seen.append(('{h}', kwargs.get('{nm}', 'MISSING'), "
                        f"type(kwargs['event_data']).__name__))\n    {ret}\n")
                src += (f"{a_}def {h}_named(self, {nm}='DEFAULT'):\n"
                        f"    seen.append(('{h}_named', {nm}, None))\n    {ret}\n")
            exec(src, ns)   # noqa: S102 - generated source
            a, b = State(initial=True, exit="on_exit_a_named"), State(enter="on_enter_b_named")
            body = {"a": a, "b": b,
                    # (the expression entries make the keyword travel through the and / or /
                    # comparison combinators of the guard parser as well)
                    "go": a.to(b, cond=["cond", "cond_named", "cond and cond_named",
                                        "cond or cond_named", "cond == cond_named"],
                               validators=["val", "val_named"],
                               on=["on_go_named"], before="before_go_named",
                               after="after_go_named") | b.to(a)}
            body.update({k: v for k, v in ns.items() if k != "seen" and not k.startswith("__")})
            cls = None
            for style in ("send", "method"):
                del seen[:]
                sc = {"user_name": nm, "asyn": asyn, "style": style}
                try:
                    if cls is None:
                        cls = StateMachineMetaclass("MU", (StateMachine,), dict(body))
                    sm = cls()
                    if asyn:
                        r0 = sm.activate_initial_state()
                        if inspect.isawaitable(r0):
                            run_sync_coro(r0)
                    kw = {nm: "U"}
                    r = sm.send("go", **kw) if style == "send" else sm.go(**kw)
                    if inspect.isawaitable(r):
                        run_sync_coro(r)
                except Exception as e:   # noqa: BLE001
                    res.stats["evaluations"] += 1
                    res.violation({"category": "user-keyword-name", "exc": type(e).__name__},
                                  sc, f"sm.{'send(\'go\', ' if style == 'send' else 'go('}{nm}='U') "
                                  f"[{'async' if asyn else 'sync'}] raised {type(e).__name__}: {e}")
                    continue
                res.stats["evaluations"] += 1
                want = []
                for h in ("val", "cond", "before_go", "on_exit_a", "on_go", "on_enter_b",
                          "after_go"):
                    want.append(h)
                    want.append(h + "_named")
                got = {s_[0]: s_ for s_ in seen}
                bad = None
                for h in want:
                    if h not in got:
                        bad = f"callback {h} did not run"
                    elif got[h][1] != "U":
                        bad = (f"callback {h} received {got[h][1]!r} for the user keyword "
                               f"{nm}='U'")
                    elif got[h][2] not in (None, "EventData"):
                        bad = f"callback {h}: event_data is a {got[h][2]}"
                    if bad:
                        break
                if bad:
                    res.violation({"category": "user-keyword-name"}, sc,
                                  f"user keyword {nm}='U' ({style}, {'async' if asyn else 'sync'}): "
                                  f"{bad}")
                else:
                    res.hist["user-name-ok"] += 1


def run_sync_coro(co):
    from ..drive import loop
    return loop().run_until_complete(co)


# -- driver -------------------------------------------------------------------------------------

def sig_list(tier):
    n = 4 if tier == "quick" else 5
    names = ("source", "event", "x", "z") if tier == "quick" else NAMES
    return list(signatures(n, names))


def worker(block):
    res = BlockResult()
    if block[0] == "extra":
        with deadline(600):
            check_independence(res)
            check_forwarding(res)
            check_user_names(res)
        res.stats["states"] += 1
        return res
    tier, lo, hi = block
    shapes = call_shapes()
    sigs = sig_list(tier)[lo:hi]
    kinds = ("function", "method", "partial", "coroutine")
    for si, sig in enumerate(sigs):
        uniq = f"_{lo + si}"
        sig_kinds = kinds + (("method-noself",) if sig and sig[0][0] == VARPOS else ())
        for ki, kind in enumerate(sig_kinds):
            if tier == "quick" and kind in ("partial",) and len(sig) > 3:
                continue
            try:
                with deadline(60):
                    check_seam_a(res, sig, kind, shapes, f"{uniq}_{ki}")
                    if kind == "function" or (tier != "quick" and kind == "coroutine"):
                        for mode in ("kw", "all"):
                            check_seam_a(res, sig, kind, shapes, f"{uniq}_{ki}{mode}", falsy=mode)
            except Hang:
                res.violation({"category": "hang"}, {"sig": [list(s) for s in sig]}, "hung")
        if len(sig) <= (2 if tier == "quick" else 3):
            for ki, kind in enumerate(("function", "coroutine")):
                with deadline(120):
                    check_seam_b(res, sig, kind, shapes[::(3 if tier == "quick" else 1)],
                                 f"{uniq}_e{ki}")
        res.stats["states"] += 1
    if lo == 0 and sigs:
        s = sigs[min(30, len(sigs) - 1)]
        res.samples.append({"signature": render(s).splitlines()[0], "call": "args=('p0','p1') "
                            "user_kw={x, source (override attempt)}"})
    return res


def run(tier, seed):
    rep = Report(PID, tier, seed)
    n = len(sig_list(tier))
    step = 60 if tier == "quick" else 400
    blocks = [(tier, i, min(i + step, n)) for i in range(0, n, step)] + [("extra",)]
    total, capped = run_blocks(worker, blocks, seed=seed)
    rep.add_violations(total.violations, total.hist_sig)
    rep.harness_errors = total.stats.get("harness_errors", 0)
    rep.notes.extend(total.notes)
    rep.coverage = {
        "states": total.stats["states"],
        "transitions": total.stats["evaluations"],
        "traces_validated_against_impl": total.stats["evaluations"],
        "evaluations": total.stats["evaluations"],
        "signatures": n, "call_shapes": len(call_shapes()),
        "independence_bindings": total.stats["independence_bindings"],
        "user_keyword_names": total.stats.get("user_names", 0),
        "adapter_seam_available": not total.stats.get("seam_a_unavailable"),
        "outcome_histogram": dict(total.hist),
        "samples": total.samples or [{"note": "no sample"}],
        "rule": "states = signatures (x callable kinds); transitions = bindings executed on the "
                "real adapter / engine and compared with the reference binder",
        "violations_total": total.stats.get("violations_total", 0),
    }
    rep.assumptions = ["inspect.signature is trusted for the parameter list",
                       "slot-aligned reading of 'positional arguments in order' (fixed by the "
                       "pinned tests/test_signature.py table)"]
    return rep.finish(exhaustive=not capped)


def replay(sc):
    res = BlockResult()
    if "independence" in sc:
        check_independence(res)
        for v in res.violations:
            if v["scenario"]["independence"] == sc["independence"]:
                return v["message"]
        return None
    if "forwarding" in sc:
        check_forwarding(res)
        return res.violations[0]["message"] if res.violations else None
    if "user_name" in sc:
        check_user_names(res)
        for v in res.violations:
            if v["scenario"] == sc:
                return v["message"]
        return None
    sig = tuple(tuple(s) for s in sc["sig"])
    if sc.get("falsy"):
        check_seam_a(res, sig, sc["kind"], [call_shapes()[sc["shape"]]], "_replay",
                     falsy=sc["falsy"])
        return res.violations[0]["message"] if res.violations else None
    shapes = [(tuple(sc["args"]), sc["user_kw"])] if "args" in sc else call_shapes()
    (check_seam_a if sc.get("seam", "a") == "a" else check_seam_b)(res, sig, sc["kind"], shapes,
                                                                     "_replay")
    return res.violations[0]["message"] if res.violations else None

"""C16 - machines are isolated from other instances, classes and definitions.

A family of definitions engineered to collide: the same class name `Dup` and the same method
names with different signatures (plain / source / target / *args / args / keyword-only),
coroutine twins, listener classes with one name and different signatures, a base class, a
subclass that only inherits, a subclass that extends the base's states, and a machine whose
callback drives a second machine.  For every ordered pair (X, Y) the operation sequences
[define, instantiate, send go, send go] of X and of Y are run in **all 70 interleavings** in one
process (thorough: selected triples).  Oracle: every observation of X (results, states, injected
arguments, structure: states / transitions per state / events / allowed_events) equals the
expected observation of X, which is also what X yields when run alone in a fresh process.
"""

import itertools
import json
import os
import subprocess
import sys

from ..par import BlockResult, Hang, deadline, run_blocks
from ..report import Report

PID = "C16"

HEAD = """
from statemachine import State, StateMachine
import inspect
def _r(v):
    return getattr(v, 'id', v) if not isinstance(v, (tuple, list)) else [ _r(x) for x in v ]
"""

# name -> (source, expected observations for [send1, send2])
DEFS = {}


def _machine(body, extra="", asyn=False):
    return HEAD + f"""
class Dup(StateMachine):
    s0 = State(initial=True)
    s1 = State()
    s2 = State()
    go = s0.to(s1) | s1.to(s2) | s2.to(s0)
{body}
{extra}
"""


def d(name, src, expected, **kw):
    DEFS[name] = dict(src=src, expected=expected, **kw)


d("plain", _machine("    def on_go(self):\n        REC.append(('on_go',))\n        return 'plain'"),
  [["plain", "s1", [["on_go"]]], ["plain", "s2", [["on_go"]]]])
d("source", _machine("    def on_go(self, source):\n        REC.append(('on_go', _r(source)))\n        return 'source'"),
  [["source", "s1", [["on_go", "s0"]]], ["source", "s2", [["on_go", "s1"]]]])
d("target", _machine("    def on_go(self, target):\n        REC.append(('on_go', _r(target)))\n        return 'target'"),
  [["target", "s1", [["on_go", "s1"]]], ["target", "s2", [["on_go", "s2"]]]])
d("source-varargs", _machine("    def on_go(self, source, *args):\n        REC.append(('on_go', _r(source), _r(args)))\n        return 'va'"),
  # the positional aligns with the `source` slot (which takes the built-in): *args stays empty
  [["va", "s1", [["on_go", "s0", []]]], ["va", "s2", [["on_go", "s1", []]]]], args=("p",))
d("source-args", _machine("    def on_go(self, source, args=None):\n        REC.append(('on_go', _r(source), _r(args)))\n        return 'a'"),
  [["a", "s1", [["on_go", "s0", None]]], ["a", "s2", [["on_go", "s1", None]]]], args=("p",))
d("x-kwonly-source", _machine("    def on_go(self, x=None, *, source):\n        REC.append(('on_go', x, _r(source)))\n        return 'k'"),
  [["k", "s1", [["on_go", "p", "s0"]]], ["k", "s2", [["on_go", "p", "s1"]]]], args=("p",))
d("x-source", _machine("    def on_go(self, x=None, source=None):\n        REC.append(('on_go', x, _r(source)))\n        return 'xs'"),
  [["xs", "s1", [["on_go", "p", "s0"]]], ["xs", "s2", [["on_go", "p", "s1"]]]], args=("p",))
d("async-plain", _machine("    async def on_go(self):\n        REC.append(('on_go',))\n        return 'aplain'"),
  [["aplain", "s1", [["on_go"]]], ["aplain", "s2", [["on_go"]]]])
d("async-source", _machine("    async def on_go(self, source):\n        REC.append(('on_go', _r(source)))\n        return 'asource'"),
  [["asource", "s1", [["on_go", "s0"]]], ["asource", "s2", [["on_go", "s1"]]]])
d("listener-event", _machine("", extra="""
class L:
    def after_go(self, event):
        REC.append(('after_go', str(event)))
LISTENERS = [L]
"""), [[None, "s1", [["after_go", "go"]]], [None, "s2", [["after_go", "go"]]]])
d("listener-full", _machine("", extra="""
class L:
    def after_go(self, event, source, target):
        REC.append(('after_go', str(event), _r(source), _r(target)))
LISTENERS = [L]
"""), [[None, "s1", [["after_go", "go", "s0", "s1"]]], [None, "s2", [["after_go", "go", "s1", "s2"]]]])
d("guarded", _machine("    def ok(self, target):\n        REC.append(('ok', _r(target)))\n        return True",
                      extra="").replace("go = s0.to(s1) |", "go = s0.to(s1, cond='ok') |"),
  [[None, "s1", [["ok", "s1"]]], [None, "s2", []]])
d("inherits", HEAD + """
class Base(StateMachine):
    s0 = State(initial=True)
    s1 = State()
    s2 = State()
    go = s0.to(s1) | s1.to(s2) | s2.to(s0)
    def on_go(self, source):
        REC.append(('on_go', _r(source)))
        return 'base'
class Dup(Base):
    pass
""", [["base", "s1", [["on_go", "s0"]]], ["base", "s2", [["on_go", "s1"]]]])
d("driver", HEAD + """
class Dup(StateMachine):
    s0 = State(initial=True)
    s1 = State()
    s2 = State()
    go = s0.to(s1) | s1.to(s2) | s2.to(s0)
    peer = None
    def on_go(self, source):
        REC.append(('on_go', _r(source)))
        if self.peer is not None:
            r = self.peer.send('go')
            REC.append(('peer', r, self.peer.current_state.id))
        return 'drv'
def POST_INSTANTIATE(sm, cls):
    sm.peer = cls()
""", [["drv", "s1", [["on_go", "s0"], ["on_go", "s0"], ["peer", "drv", "s1"]]],
      ["drv", "s2", [["on_go", "s1"], ["on_go", "s1"], ["peer", "drv", "s2"]]]])

d("guard-named-like-foreign-state", HEAD + """
class Dup(StateMachine):
    t0 = State(initial=True)
    t1 = State()
    t2 = State()
    go = t0.to(t1, cond='s1', on='s2') | t1.to(t2) | t2.to(t0)
    def s1(self):
        REC.append(('s1',))
        return True
    def s2(self):
        REC.append(('s2',))
        return 'act'
""", [["act", "t1", [["s1"], ["s2"]]], [None, "t2", []]],
  struct={"states": ["t0", "t1", "t2"],
          "trans": {"t0": [["go", "t1"]], "t1": [["go", "t2"]], "t2": [["go", "t0"]]},
          "events": ["go"]})
d("expression-guard-after-rejected-instance", HEAD + """
from statemachine.exceptions import InvalidDefinition
class Dup(StateMachine):
    s0 = State(initial=True)
    s1 = State()
    s2 = State()
    go = s0.to(s1, cond='ok and ready') | s1.to(s2) | s2.to(s0)
class Good:
    state = None
    ok = True
    @property
    def ready(self):
        REC.append(('ready',))
        return True
class Bad:
    state = None
    ok = True
def INSTANTIATE(cls):
    try:
        cls(Bad())
        raise AssertionError('a model without `ready` must be rejected')
    except InvalidDefinition:
        pass
    return cls(Good())
""", [[None, "s1", [["ready"]]], [None, "s2", []]])
d("model-with-instance-hooks", HEAD + """
class Dup(StateMachine):
    s0 = State(initial=True)
    s1 = State()
    s2 = State()
    go = s0.to(s1) | s1.to(s2) | s2.to(s0)
class Doc:
    def __init__(self, hook):
        self.state = None
        if hook:
            self.after_go = lambda: REC.append(('after_go',))
def INSTANTIATE(cls):
    first = cls(Doc(False))          # same model class, no instance-level hook
    first.send('go')
    return cls(Doc(True))
""", [[None, "s1", [["after_go"]]], [None, "s2", [["after_go"]]]])

# a machine class with value equality: all its instances compare equal and hash alike.  Another
# instance of the class, equal to the one under test, sits in another state; whatever the library
# keeps per machine must be kept per *object*
d("value-equal-machines", _machine("""    def __eq__(self, other):
        return type(other) is type(self)
    def __hash__(self):
        return 7
    def on_go(self):
        REC.append(('on_go', [s.id for s in self.states if getattr(self, s.id).is_active],
                    self.current_state.is_active))
        return 'veq'""", extra="""
KEEP = []
def INSTANTIATE(cls):
    first = cls()
    first.send('go')
    first.send('go')                 # an equal instance, elsewhere (s2), and still alive
    KEEP.append(first)
    assert [s.id for s in first.states if getattr(first, s.id).is_active] == ['s2']
    return cls()
"""), [["veq", "s1", [["on_go", ["s0"], True]]], ["veq", "s2", [["on_go", ["s1"], True]]]])

# one helper function (same source position, hence an equal code object and qualified name) used
# directly by one definition and through a functools.wraps wrapper of different "asyncness" by
# another one
_HELPER = HEAD + """
def audit(source):
    REC.append(('audit', _r(source)))
    return 'h'
import functools
def traced(fn):
    @functools.wraps(fn)
    async def wrapper(*args, **kwargs):
        return fn(*args, **kwargs)
    return wrapper
def passthrough(fn):
    @functools.wraps(fn)
    def wrapper(*args, **kwargs):
        return fn(*args, **kwargs)
    return wrapper
class Dup(StateMachine):
    s0 = State(initial=True)
    s1 = State()
    s2 = State()
    go = s0.to(s1, on=USE) | s1.to(s2, on=USE) | s2.to(s0, on=USE)
"""
_HELPER_EXP = [["h", "s1", [["audit", "s0"]]], ["h", "s2", [["audit", "s1"]]]]
d("helper-raw", _HELPER.replace("USE", "audit"), _HELPER_EXP)
d("helper-async-wrapped", _HELPER.replace("USE", "traced(audit)"), _HELPER_EXP)
d("helper-sync-wrapped", _HELPER.replace("USE", "passthrough(audit)"), _HELPER_EXP)

d("shared-listeners-list", _machine("", extra="""
class L:
    def after_go(self):
        REC.append(('L.after_go',))
class Extra:
    def after_go(self):
        REC.append(('Extra.after_go',))
SHARED = [L()]
def INSTANTIATE(cls):
    first = cls(listeners=SHARED)
    first.add_listener(Extra())      # attached to `first` only
    first.send('go')
    return cls(listeners=SHARED)
"""), [[None, "s1", [["L.after_go"]]], [None, "s2", [["L.after_go"]]]])

STRUCT = {"states": ["s0", "s1", "s2"],
          "trans": {"s0": [["go", "s1"]], "s1": [["go", "s2"]], "s2": [["go", "s0"]]},
          "events": ["go"]}


class Inst:
    """One definition being driven step by step."""

    def __init__(self, name, clone=False):
        self.name = name
        self.clone = clone          # the second event is sent to a deepcopy of the machine
        self.spec = DEFS[name]
        self.rec = []
        self.ns = {"REC": self.rec}
        self.cls = None
        self.sm = None
        self.obs = []

    def define(self):
        import warnings
        with warnings.catch_warnings():
            warnings.simplefilter("ignore")
            exec(self.spec["src"], self.ns)   # noqa: S102 - fixed harness source
        self.cls = self.ns["Dup"]

    def instantiate(self):
        ls = [c() for c in self.ns.get("LISTENERS", [])]
        custom = self.ns.get("INSTANTIATE")
        if custom:
            self.sm = custom(self.cls)
            del self.rec[:]
        else:
            self.sm = self.cls(listeners=ls) if ls else self.cls()
        post = self.ns.get("POST_INSTANTIATE")
        if post:
            post(self.sm, self.cls)
        act = self.sm.activate_initial_state()
        del act

    def send(self):
        if self.clone and len(self.obs) == 1:
            import copy
            try:
                self.sm = copy.deepcopy(self.sm)
            except Exception as e:   # noqa: BLE001
                self.obs.append([f"EXC deepcopy {type(e).__name__}: {e}", None, []])
                return
        del self.rec[:]      # (resolving callbacks for the copy may read property providers)
        try:
            r = self.sm.send("go", *self.spec.get("args", ()))
        except Exception as e:   # noqa: BLE001
            r = f"EXC {type(e).__name__}: {e}"
        self.obs.append([r, self.sm.current_state.id, json.loads(json.dumps(self.rec))])

    def structure(self):
        sm = self.sm
        try:
            return {"states": [s.id for s in sm.states],
                    "trans": {s.id: [[str(t.event), t.target.id] for t in s.transitions]
                              for s in sm.states},
                    "events": sorted(str(e) for e in sm.events),
                    "allowed": [str(e) for e in sm.allowed_events]}
        except Exception as e:   # noqa: BLE001
            return {"error": f"{type(e).__name__}: {e}"}

    OPS = ("define", "instantiate", "send", "send")

    def step(self, k):
        getattr(self, self.OPS[k])()

    def verdict(self):
        exp = self.spec["expected"]
        if self.obs != exp:
            return f"observations {self.obs} expected {exp}"
        st = self.structure()
        want = dict(self.spec.get("struct", STRUCT), allowed=["go"])
        if st != want:
            return f"structure {st} expected {want}"
        return None


def interleavings(n=4, m=4):
    for pos in itertools.combinations(range(n + m), n):
        s = set(pos)
        yield ["X" if i in s else "Y" for i in range(n + m)]


def run_pair(x, y, order):
    # X's second event goes to a deepcopy of X's machine (taken while Y's class - same class
    # name - may already exist): the copy is a machine of X's class
    a, b = Inst(x, clone=True), Inst(y)
    ia = ib = 0
    for who in order:
        if who == "X":
            a.step(ia)
            ia += 1
        else:
            b.step(ib)
            ib += 1
    return a.verdict(), b.verdict()


def alone_in_fresh_process(name):
    """X run alone in a fresh interpreter: must yield the expected observation too."""
    code = ("import sys, json; sys.path[:0] = %r; from mc.checks.c16 import Inst\n"
            "i = Inst(%r)\n"
            "[i.step(k) for k in range(4)]\n"
            "print(json.dumps({'verdict': i.verdict()}))\n") % (
        [os.environ.get("VERIF_REPO", "/repo"), os.path.dirname(os.path.dirname(
            os.path.dirname(os.path.abspath(__file__))))], name)
    out = subprocess.run([sys.executable, "-c", code], capture_output=True, text=True, timeout=120,
                         env=dict(os.environ, PYTHONWARNINGS="ignore"))
    if out.returncode != 0:
        return f"fresh process failed: {out.stderr[-400:]}"
    return json.loads(out.stdout.strip().splitlines()[-1])["verdict"]


# -- subclass extension (shared State objects of the base class) -----------------------------------

EXT_BASE = HEAD + """
class Base(StateMachine):
    s0 = State(initial=True)
    s1 = State()
    s2 = State()
    go = s0.to(s1) | s1.to(s2) | s2.to(s0)
    may_jump = False        # (only the subclass has a transition guarded by it)
"""
EXT_SUB = """
class Sub(Base):
    s3 = State()
    jump = Base.s1.to(s3, cond="may_jump") | s3.to(Base.s0)
    may_jump = False
    def on_jump(self):
        REC.append(("on_jump",))
"""


def check_extension(res):
    """Defining a subclass that extends the base's states must not change the base class or its
    instances (created before or after)."""
    for when in ("instance-before", "instance-after"):
        ns = {"REC": []}
        import warnings
        with warnings.catch_warnings():
            warnings.simplefilter("ignore")
            exec(EXT_BASE, ns)   # noqa: S102
            base = ns["Base"]
            sm = base() if when == "instance-before" else None
            exec(EXT_SUB, ns)   # noqa: S102
            if sm is None:
                sm = base()
        res.stats["evaluations"] += 1
        try:
            sm.send("go")
            st = {"trans_s1": [[str(t.event), t.target.id] for t in sm.s1.transitions],
                  "events": sorted(str(e) for e in sm.events)}
            try:
                st["allowed"] = [str(e) for e in sm.allowed_events]
            except Exception as e:   # noqa: BLE001
                st["allowed"] = f"EXC {type(e).__name__}: {e}"
        except Exception as e:   # noqa: BLE001
            st = {"error": f"{type(e).__name__}: {e}"}
        want = {"trans_s1": [["go", "s2"]], "events": ["go"], "allowed": ["go"]}
        if st != want:
            # the known root cause has exactly this shape: Base.s1 gained the subclass's `jump`
            # transition (and allowed_events trips over the trigger Base does not have);
            # anything else in this scenario is reported under its own signature
            known_shape = (st.get("trans_s1") == [["go", "s2"], ["jump", "s3"]]
                           and st.get("events") == ["go"]
                           and (st.get("allowed") == ["go", "jump"]
                                or str(st.get("allowed", "")).startswith("EXC AttributeError")))
            res.violation({"category": "base-state-mutated-by-subclass" if known_shape
                           else "subclass-extension-changes-base"},
                          {"extension": when},
                          f"[{when}] after `class Sub(Base)` extended Base.s1 with a new transition, "
                          f"a Base instance in s1 shows {st}, expected {want}")
        # the value of the state added by the subclass is not a state value of the base class
        from statemachine.exceptions import InvalidStateValue
        res.stats["evaluations"] += 1
        probe = base()
        try:
            probe.current_state_value = "s3"
            got = f"accepted (current_state_value is now {probe.current_state_value!r})"
        except InvalidStateValue:
            got = None
        except Exception as e:   # noqa: BLE001
            got = f"raised {type(e).__name__}: {e}"
        if got is None and ("s3" in base.states_map or len(base.states_map) != 3):
            got = f"Base.states_map now has the keys {sorted(map(str, base.states_map))}"
        if got:
            res.violation({"category": "base-accepts-subclass-state-value"},
                          {"extension": when, "probe": "value"},
                          f"[{when}] after `class Sub(Base)` added the state s3, writing the value "
                          f"'s3' to a Base instance: {got}; expected InvalidStateValue")
        # the subclass itself must work
        sub = ns["Sub"]()
        sub.send("go")
        del ns["REC"][:]
        try:
            sub.send("jump")
            refused = False
        except sub.TransitionNotAllowed:
            refused = True
        if not refused or sub.current_state.id != "s1":
            res.violation({"category": "subclass-extension-broken"}, {"extension": when},
                          f"[{when}] the guard of the transition added by the subclass "
                          f"(may_jump = False) was not consulted: Sub is in "
                          f"{sub.current_state.id}")
        sub.may_jump = True
        sub.send("jump")
        if sub.current_state.id != "s3" or ns["REC"] != [("on_jump",)]:
            res.violation({"category": "subclass-extension-broken"}, {"extension": when},
                          f"[{when}] Sub did not reach s3 running on_jump once: "
                          f"{sub.current_state.id}, callbacks {ns['REC']}")


def worker(block):
    res = BlockResult()
    kind = block[0]
    if kind == "alone":
        for name in DEFS:
            res.stats["evaluations"] += 1
            v = alone_in_fresh_process(name)
            if v:
                res.violation({"category": "alone", "def": name}, {"alone": name},
                              f"definition {name!r} run alone in a fresh process: {v}")
        check_extension(res)
        res.stats["states"] += 1
        return res
    if kind == "triple":
        _, x, y, z = block
        # three definitions: all interleavings of 3 x [define, instantiate, send] (1680)
        for pos in set(itertools.permutations("XXXYYYZZZ")):
            insts = {"X": Inst(x), "Y": Inst(y), "Z": Inst(z)}
            idx = {"X": 0, "Y": 0, "Z": 0}
            for who in pos:
                insts[who].step(idx[who])
                idx[who] += 1
            res.stats["states"] += 1
            for who, inst in insts.items():
                exp = inst.spec["expected"][:1]
                if inst.obs != exp:
                    res.violation({"category": "interference", "victim": inst.name},
                                  {"triple": [x, y, z], "order": "".join(pos)},
                                  f"triple {x},{y},{z} order {''.join(pos)}: {inst.name} observed "
                                  f"{inst.obs} expected {exp}")
        return res
    _, x, y = block
    for order in interleavings():
        res.stats["states"] += 1
        res.stats["transitions"] += 8
        try:
            with deadline(30):
                va, vb = run_pair(x, y, order)
        except Hang:
            va, vb = "hung", None
        for who, v, name in (("X", va, x), ("Y", vb, y)):
            if v:
                res.violation({"category": "interference", "victim": name,
                               "other": y if who == "X" else x},
                              {"pair": [x, y], "order": "".join(order)},
                              f"pair ({x}, {y}) interleaving {''.join(order)}: {name}: {v}")
    res.hist[f"pair"] += 1
    return res


def run(tier, seed):
    rep = Report(PID, tier, seed)
    names = list(DEFS)
    blocks = [("pair", x, y) for x in names for y in names]
    blocks.append(("alone",))
    if tier == "thorough":
        core = ["plain", "source", "source-varargs", "source-args", "async-source", "listener-event",
                "listener-full", "inherits"]
        for t in itertools.combinations(core, 3):
            blocks.append(("triple",) + t)
    total, capped = run_blocks(worker, blocks, seed=seed)
    rep.add_violations(total.violations, total.hist_sig)
    rep.harness_errors = total.stats.get("harness_errors", 0)
    rep.notes.extend(total.notes)
    rep.coverage = {
        "states": total.stats["states"],
        "transitions": total.stats["transitions"],
        "traces_validated_against_impl": total.stats["states"],
        "definitions": names, "pairs": len(names) ** 2, "interleavings_per_pair": 70,
        "samples": [{"pair": ["source-varargs", "source-args"], "order": "XYXYXYXY",
                     "X": DEFS["source-varargs"]["expected"]}],
        "rule": "states = interleavings executed (each runs both definitions' 4 operations on the "
                "real library in one process); every observation is compared with the definition's "
                "expected observation, which a fresh-process run of the definition alone confirms",
        "violations_total": total.stats.get("violations_total", 0),
        "violations_by_signature": total.hist_sig,
    }
    rep.assumptions = ["expected observations written per definition and confirmed by running each "
                       "definition alone in a fresh interpreter"]
    return rep.finish(exhaustive=not capped)


def replay(sc):
    res = BlockResult()
    if "alone" in sc:
        return alone_in_fresh_process(sc["alone"])
    if "extension" in sc:
        check_extension(res)
        return res.violations[0]["message"] if res.violations else None
    if "triple" in sc:
        r = worker(("triple",) + tuple(sc["triple"]))
        return r.violations[0]["message"] if r.violations else None
    va, vb = run_pair(sc["pair"][0], sc["pair"][1], list(sc["order"]))
    return va or vb

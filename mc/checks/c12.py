"""C12 - listeners and the model are first-class callback providers, attached once.

Callback names N = {on_enter_state, before_go, on_go, after_go, on_exit_a, guard `ok` (cond),
guard `blocked` (unless), validator `chk`, inline action `act`, and the two-name expression
guard "ok and ready"}; providers P = {machine, model, L1, L2 (constructor listeners), L3 (attached
late with add_listener)}.  Scenario = for <= 2 names every subset of P defining each, L3's attach
point at every position of the history, every valuation of the guard/validator providers,
re-attachment of listeners (constructor duplicates, add_listener repeats) and a second instance
with its own listeners driven alternately.  Oracle: the reference's "as if defined on the
machine" trace replicated per defining provider; a guard must hold on all providers; a late
listener participates from its attach point on; repeats never duplicate; instances never see
each other's listeners.
"""

import dataclasses
import itertools

from ..drive import Pair
from ..par import BlockResult, Hang, deadline, run_blocks
from ..ref import Ambiguous, Cfg
from ..report import Report
from ..spec import M, S, T, _mk, build

PID = "C12"
P5 = ("sm", "model", "L1", "L2", "L3")
NAMES = ("on_enter_state", "before_go", "on_go", "after_go", "on_exit_a", "ok", "blocked", "chk",
         "act", "ready")
GUARDISH = ("ok", "blocked", "chk", "ready")
CFGS = (Cfg("sync", True, False, "direct"), Cfg("sync", True, True, "direct"),
        Cfg("async", True, False, "facade"))


def make_spec(dist, asyn, with_l3, expr_guard=False, only=None):
    """dist: {name: frozenset(providers)}.  with_l3: whether L3 is (already) attached.
    only: if set, just this provider's callbacks are coroutines (mixed listeners)."""
    fl = "a" if asyn else ""
    provided = []
    for nm, provs in dist.items():
        for p in provs:
            if p == "L3" and not with_l3:
                continue
            # coroutine guards inside a boolean expression are C05's known finding; here the
            # names of an expression guard stay plain functions
            gfl = "" if (expr_guard and nm in ("ok", "ready")) else fl
            if only is not None and p != only:
                gfl = ""
            provided.append((p, nm, gfl))
    ctor = lambda nm: any(p != "L3" for p in dist.get(nm, ()))   # noqa: E731
    cond, unless, validators, on = [], [], [], []
    if expr_guard:
        if ctor("ok") and ctor("ready"):
            cond.append("ok and ready")
    elif ctor("ok"):
        cond.append("ok")
    if ctor("blocked"):
        unless.append("blocked")
    if ctor("chk"):
        validators.append("chk")
    if ctor("act"):
        on.append("act")
    if only is not None:
        if not any(f for (_p, _n, f) in provided):
            return None          # that provider defines nothing here: no coroutine at all
        provided.append(("sm", "after_transition", ""))
    elif asyn:
        provided.append(("sm", "after_transition", "a"))
    else:
        provided.append(("sm", "after_transition", ""))
    listeners = ["L1", "L2"] + (["L3"] if with_l3 else [])
    return M(states=(S("a", initial=True), S("b")),
             trans=(T("a", "b", ("go",), cond=tuple(cond), unless=tuple(unless),
                      validators=tuple(validators), on=tuple(on)),
                    T("b", "a", ("go",))),
             provided=tuple(provided), listeners=tuple(listeners))


def listener_class(label, dist, asyn, plain=()):
    """plain: names that stay plain functions even on the async engine (the operands of an
    expression guard - coroutine operands are C05's known finding)."""
    ns = {"_prov": label}
    for nm, provs in dist.items():
        if label in provs:
            ns[nm] = _mk(nm, "a" if (asyn and nm not in plain) else "")
    return type(label, (), ns)


def guard_valuations(dist, with_l3_possible):
    """All per-provider valuations of the guard-ish names present (True/False each)."""
    keys = [(p, nm) for nm in GUARDISH for p in sorted(dist.get(nm, ()))]
    if not keys:
        return [{}]
    if len(keys) > 5:
        # keep it bounded: all-true, each single false, all false
        vs = [dict.fromkeys(keys, True)]
        for k in keys:
            d = dict.fromkeys(keys, True)
            d[k] = False
            vs.append(d)
        vs.append(dict.fromkeys(keys, False))
        return vs
    return [dict(zip(keys, bits)) for bits in itertools.product((True, False), repeat=len(keys))]


class Hooks:
    """Generic listener: one class, the callbacks are bound per *instance*."""

    def __init__(self, label, names, asyn):
        self._prov = label
        for nm in names:
            setattr(self, nm, _hook(label, nm, asyn and nm not in getattr(self, "_sync", ())))


def _hook(label, nm, asyn):
    from ..env import CUR
    if asyn:
        async def ahook(*args, **kwargs):
            return await CUR.env.acall(label, nm, args, kwargs)
        ahook.__name__ = nm
        return ahook

    def hook(*args, **kwargs):
        return CUR.env.call(label, nm, args, kwargs)
    hook.__name__ = nm
    return hook


def _eq_variant(cls, kind):
    """Listener classes whose instances are unhashable (like a dataclass with eq=True) or all
    compare equal: attaching them must work like attaching any other object."""
    if kind == "falsy":
        # collection-like listener, empty (falsy) when it is attached
        return type(cls.__name__, (cls,), {"__len__": lambda self: 0})
    if kind == "equal":
        # every listener of the scenario compares equal to every other one (and hashes alike),
        # whatever its class: they are still distinct listeners
        return type(cls.__name__, (cls,), {
            "_all_equal": True, "__hash__": lambda self: 1,
            "__eq__": lambda self, other: getattr(other, "_all_equal", False)})
    ns = {"__eq__": lambda self, other: isinstance(other, type(self).__mro__[1])}
    ns["__hash__"] = None if kind == "unhashable" else (lambda self: 1)
    return type(cls.__name__, (cls,), ns)


def run_scenario(dist, cfg, attach_at, vals, reattach=0, expr_guard=False, two=False,
                 same_cls=False, inst_bound=False, lkind=None, only=None, lazy=False):
    """attach_at: 0, 1, 2 = L3 attached before the 1st / 2nd / 3rd event; None = never."""
    asyn = cfg.engine == "async"
    if same_cls:
        # L1 and L2 are two instances of one class: L2 provides exactly what L1 provides
        dist = {nm: frozenset((set(provs) - {"L2"}) | ({"L2"} if "L1" in provs else set()))
                for nm, provs in dist.items()}
        dist = {nm: provs for nm, provs in dist.items() if provs}
        if not dist:
            return None, 0
    uses_l3 = any("L3" in provs for provs in dist.values())
    m0 = make_spec(dist, asyn, False, expr_guard, only=only)
    m1 = make_spec(dist, asyn, True, expr_guard, only=only)
    if m0 is None or m1 is None:
        return None, 0
    built = build(m0)
    l3cls = listener_class("L3", dist, asyn and only in (None, "L3"),
                           plain=("ok", "ready") if expr_guard else ())
    if lkind:
        for lab in ("L1", "L2"):
            built.listener_cls[lab] = _eq_variant(built.listener_cls[lab], lkind)
        l3cls = _eq_variant(l3cls, lkind)
    if same_cls:
        cls1 = built.listener_cls["L1"]

        def second():
            o = cls1()
            o._prov = "L2"       # same class, second object (the label is harness bookkeeping)
            return o
        built.listener_cls["L2"] = second
    HooksX = type("Hooks", (Hooks,), {"_sync": ("ok", "ready") if expr_guard else ()})
    if inst_bound:
        # every listener is an instance of the one generic Hooks class; what it provides is
        # decided per instance
        for lab in ("L1", "L2"):
            names = [nm for nm, provs in dist.items() if lab in provs]
            built.listener_cls[lab] = (lambda lab=lab, names=names: HooksX(lab, names, asyn))
        l3names = [nm for nm, provs in dist.items() if "L3" in provs]
        l3cls = lambda: HooksX("L3", l3names, asyn)   # noqa: E731
    insts = []
    for k in range(2 if two else 1):
        ls = built.new_listeners()
        if reattach >= 1:
            ls = ls + ls[:1]          # the same object listed twice in the constructor
        p = Pair(built, cfg, listeners=ls)
        msg = p.construct()
        if msg is None and asyn and not lazy:
            # (lazy: no explicit activation - the late listener is attached to an async machine
            # that is not active yet, the first event activates it)
            msg = p.activate()
        if msg:
            return f"instance {k} construct: {msg}", 1
        if reattach >= 2:
            p.impl.sm.add_listener(ls[0])      # a constructor listener added again later
            p.impl.sm.add_listener(ls[1], ls[1])
            # the two built-in providers attached once more as ordinary listeners
            p.impl.sm.add_listener(p.impl.sm.model)
            p.impl.sm.add_listener(p.impl.sm)
        insts.append(p)
    steps = 1
    typed = {}
    for (pv, nm), v in vals.items():
        typed[(pv, nm)] = v
    # three events: a->b, b->a, a->b again - a listener attached at position 2 meets callback
    # groups that have already run for the very same event
    for i in range(3):
        for k, p in enumerate(insts):
            if attach_at == i and uses_l3 and k == 0:
                l3 = l3cls()
                for _ in range(1 + (reattach >= 1)):
                    p.impl.sm.add_listener(l3)
                p.ref.m = m1
                # expression guard whose names the late listener provides: see Ref._eval_expr
                p.ref.lenient_expr_reads = bool(expr_guard)
                p.ref.trans_of = {}
                for ti, t in enumerate(m1.trans):
                    p.ref.trans_of.setdefault(t.src, []).append((ti, t))
            msg = p.send("go", dict(typed), tag=f"i{k}e{i}") or p.check_views()
            steps += 1
            if msg:
                return f"instance {k} event {i}: {msg}", steps
            if two and k == 0:
                # instance 1's listeners must never have seen instance 0's event (checked by the
                # trace match of instance 1's own next step: its env would hold foreign records)
                other = insts[1].impl.env
                if any(r.tag == f"i0e{i}" for r in other.flat):
                    return "listeners of instance 1 were invoked by instance 0", steps
    return None, steps


def distributions(tier):
    """Yields {name: providers} for <= 2 names."""
    subsets = [frozenset(c) for r in range(1, 6) for c in itertools.combinations(P5, r)]
    out = []
    for nm in NAMES:
        if nm == "ready":
            continue
        for s in subsets:
            out.append({nm: s})
    small = [frozenset(c) for c in (("sm",), ("model",), ("L1",), ("L3",), ("sm", "L1"),
                                    ("L1", "L2"), ("model", "L3"), ("sm", "L3"),
                                    ("sm", "model", "L1", "L2", "L3"))]
    pool = subsets if tier == "thorough" else small
    names = [n for n in NAMES if n != "ready"]
    for n1, n2 in itertools.combinations(names, 2):
        for s1 in pool:
            for s2 in pool:
                out.append({n1: s1, n2: s2})
    return out


def expr_distributions():
    subs = [frozenset(c) for c in (("sm",), ("L1",), ("sm", "L1"), ("sm", "L3"), ("L1", "L3"),
                                   ("model", "L2"))]
    out = []
    for s1 in subs:
        for s2 in subs:
            out.append({"ok": s1, "ready": s2})
    return out


# -- plain attributes as providers ---------------------------------------------------------------

AP = ("sm", "model", "L1", "L3")
ATTR_INIT = (None, False, True, 0)


def attr_scenarios():
    """(providers, kinds, inits, polarity, attach_at): guard name `ok` provided by a non-empty
    subset of {machine, model, constructor listener, late listener}, each either by a method or
    by a plain attribute whose value at attach time is None / False / True / 0."""
    out = []
    for r in range(1, len(AP) + 1):
        for provs in itertools.combinations(AP, r):
            if provs == ("L3",):
                continue               # no constructor provider: the definition is invalid
            for kinds in itertools.product(("method", "attr"), repeat=len(provs)):
                if "attr" not in kinds:
                    continue           # all methods: the main space
                n_attr = kinds.count("attr")
                for inits in itertools.product(ATTR_INIT, repeat=n_attr):
                    for pol in ("cond", "unless"):
                        for attach_at in ((0, 1) if "L3" in provs else (None,)):
                            out.append((provs, kinds, inits, pol, attach_at))
    return out


def run_attr_scenario(provs, kinds, inits, pol, attach_at, res=None):
    from statemachine import State, StateMachine
    from statemachine.factory import StateMachineMetaclass
    holder = {}
    it = iter(inits)
    spec = {}
    for p, k in zip(provs, kinds):
        spec[p] = (k, next(it) if k == "attr" else None)

    def member(p):
        k, init = spec[p]
        if k == "attr":
            return init

        def ok(self):
            return holder[p]
        return ok

    a, b = State(initial=True), State()
    ns = {"a": a, "b": b, "go": a.to(b, **{pol: "ok"}), "back": b.to(a)}
    if "sm" in spec:
        ns["ok"] = member("sm")
    cls = StateMachineMetaclass("MA", (StateMachine,), ns)
    Mod = type("Mod", (), dict({"state": None}, **({"ok": member("model")} if "model" in spec else {})))
    objs = {}
    if "model" in spec:
        objs["model"] = Mod()
    for lab in ("L1", "L3"):
        if lab in spec:
            objs[lab] = type(lab, (), {"ok": member(lab)})()
    try:
        sm = cls(objs.get("model"), listeners=[objs["L1"]] if "L1" in objs else None) \
            if "model" in objs else cls(listeners=[objs["L1"]] if "L1" in objs else None)
    except Exception as e:   # noqa: BLE001
        return f"construction raised {type(e).__name__}: {e}", 0
    objs["sm"] = sm
    want = pol == "cond"
    steps = 0
    attached = [p for p in provs if p != "L3"]
    for i in range(2):
        if attach_at == i:
            sm.add_listener(objs["L3"])
            attached.append("L3")
        for bits in itertools.product((True, False), repeat=len(attached)):
            cur = dict(zip(attached, bits))
            # unattached late listener: hostile value, it must not matter
            for p in provs:
                v = cur.get(p, not want)
                if spec[p][0] == "attr":
                    object.__setattr__(objs[p], "ok", v)
                else:
                    holder[p] = v
            sm.current_state_value = "a"
            try:
                sm.send("go")
                fired = sm.current_state_value == "b"
            except sm.TransitionNotAllowed:
                fired = False
            except Exception as e:   # noqa: BLE001
                return f"send raised {type(e).__name__}: {e}", steps
            steps += 1
            exp = all(bool(cur[p]) == want for p in attached)
            if fired != exp:
                return (f"{pol}='ok' provided by {dict((p, spec[p]) for p in provs)} "
                        f"(attribute values are the ones at attach time), attached {attached}, "
                        f"current values {cur}: expected fires={exp}, observed {fired}"), steps
    return None, steps


# -- expression guards and a late provider of all their names ------------------------------------

LATE_EXPRS = ("not ok", "!ok", "ok and ready", "ok or ready", "not ok and ready", "ok == ready")


def late_expr_cases():
    out = []
    for expr in LATE_EXPRS:
        for ctor in (("sm",), ("sm", "L1")):
            for pol in ("cond", "unless"):
                for twice in (False, True):
                    out.append((expr, ctor, pol, twice))
    return out


def run_late_expr(expr, ctor, pol, twice):
    """The names of a guard expression are provided by the constructor providers (a name must
    hold on all of them: per-name conjunction inside the expression) and by a listener attached
    later that provides all of them: the late listener has to satisfy the expression as well.
    Every valuation of every provider is checked against that formula."""
    from statemachine import State, StateMachine
    from statemachine.factory import StateMachineMetaclass
    import re
    names = [n for n in ("ok", "ready") if re.search(rf"\b{n}\b", expr)]
    holder = {}

    def meth(p, n):
        def f(self):
            return holder[(p, n)]
        f.__name__ = n
        return f

    a, b = State(initial=True), State()
    ns = {"a": a, "b": b, "go": a.to(b, **{pol: expr}), "back": b.to(a)}
    for n in names:
        ns[n] = meth("sm", n)
    cls = StateMachineMetaclass("ML", (StateMachine,), ns)
    L1 = type("L1", (), {n: meth("L1", n) for n in names})
    L3 = type("L3", (), {n: meth("L3", n) for n in names})
    provs = list(ctor) + ["L3"]
    for key in [(p, n) for p in provs for n in names]:
        holder[key] = True
    try:
        sm = cls(listeners=[L1()] if "L1" in ctor else None)
        l3 = L3()
        sm.add_listener(l3)
        if twice:
            sm.add_listener(l3)
    except Exception as e:   # noqa: BLE001
        return f"construction/attachment raised {type(e).__name__}: {e}", 0
    py = expr.replace("!", " not ")
    want = pol == "cond"
    steps = 0
    keys = [(p, n) for p in provs for n in names]
    for bits in itertools.product((True, False), repeat=len(keys)):
        holder.update(zip(keys, bits))
        sm.current_state_value = "a"
        try:
            sm.send("go")
            fired = sm.current_state_value == "b"
        except sm.TransitionNotAllowed:
            fired = False
        except Exception as e:   # noqa: BLE001
            return f"send raised {type(e).__name__}: {e}", steps
        steps += 1
        fold = eval(py, {"__builtins__": {}},   # noqa: S307 - fixed expressions
                    {n: all(holder[(p, n)] for p in ctor) for n in names})
        late = eval(py, {"__builtins__": {}}, {n: holder[("L3", n)] for n in names})  # noqa: S307
        exp = (bool(fold) == want) and (bool(late) == want)
        if fired != exp:
            return (f"{pol}={expr!r}, constructor providers {ctor}, late listener L3"
                    f"{' (attached twice)' if twice else ''}, values {dict(holder)}: expected "
                    f"fires={exp} (constructor providers: {bool(fold)}, late listener: "
                    f"{bool(late)}), observed {fired}"), steps
    return None, steps


# -- a listener attached from inside a callback -----------------------------------------------------

IN_GROUPS = ("before_transition", "on_exit_state", "on_transition", "on_enter_state",
             "after_transition")
# callbacks following a naming convention sort after the generic ones of their group: a listener
# attached from inside one of them inserts its generic callback *before* the running one
CONV_POINTS = {"before_go": "before_transition", "on_exit_a": "on_exit_state",
               "on_go": "on_transition", "on_enter_b": "on_enter_state",
               "after_go": "after_transition",
               # the initial state's own hook: runs during the activation and whenever `a` is
               # entered again
               "on_enter_a": "on_enter_state"}
IN_POINTS = ("vld", "ok") + IN_GROUPS + tuple(CONV_POINTS)


def in_callback_cases():
    out = []
    for asyn in (False, True):
        for point in IN_POINTS:
            for who in ("listener", "machine", "model"):
                for at in ("first-event", "second-event", "activation"):
                    if at == "activation" and point not in ("on_enter_state", "on_enter_a"):
                        continue
                    if point == "on_enter_a" and at == "second-event":
                        continue     # `a` is entered a second time only by a fourth event
                    out.append((asyn, point, who, at))
    return out


def run_in_callback(asyn, point, who, at):
    """A callback of group `point` (provided by a constructor listener, the machine or the model)
    calls machine.add_listener(B) while that very group is being executed.  The event must
    complete normally; B receives every later group of that event exactly once (the running
    group itself: at most once) and every group of the following events exactly once."""
    from statemachine import State, StateMachine
    from statemachine.factory import StateMachineMetaclass
    log = []
    arm = {"n": 0}

    def mk(label, g, attach=None):
        if asyn:
            async def f(self, machine, event):
                log.append((label, g, str(event)))
                if attach is not None:
                    attach(machine, str(event))
                return True
        else:
            def f(self, machine, event):
                log.append((label, g, str(event)))
                if attach is not None:
                    attach(machine, str(event))
                return True
        f.__name__ = g
        return f

    B = type("B", (), {g: mk("B", g) for g in IN_GROUPS})
    b = B()
    want_event = {"first-event": ("go", 1), "second-event": ("go", 2),
                  "activation": ("__initial__", 1)}[at]

    def attach(machine, event):
        if event == want_event[0]:
            arm["n"] += 1
            if arm["n"] == want_event[1]:
                machine.add_listener(b)

    provider_ns = {point: mk("P", point, attach)}
    sm_ns = {g: mk("sm", g) for g in IN_GROUPS}
    for nm in ("vld", "ok"):
        sm_ns.setdefault(nm, mk("sm", nm))
    sa, sb = State(initial=True), State()
    sm_ns.update({"a": sa, "b": sb,
                  "go": sa.to(sb, cond="ok", validators="vld") | sb.to(sa, cond="ok",
                                                                         validators="vld")})
    mod_ns = {"state": None}
    lis_ns = {}
    if who == "machine":
        sm_ns[point] = provider_ns[point]
    elif who == "model":
        mod_ns.update(provider_ns)
    else:
        lis_ns.update(provider_ns)
    cls = StateMachineMetaclass("MI", (StateMachine,), sm_ns)

    def drive():
        sm = cls(type("Mod", (), mod_ns)(), listeners=[type("A", (), lis_ns)()])
        r = sm.activate_initial_state()
        if asyn and hasattr(r, "__await__"):
            from ..drive import loop
            loop().run_until_complete(r)
        marks = [len(log)]
        for _ in range(3):
            r = sm.send("go")
            if hasattr(r, "__await__"):
                from ..drive import loop
                loop().run_until_complete(r)
            marks.append(len(log))
        return sm, marks

    try:
        sm, marks = drive()
    except Exception as e:   # noqa: BLE001
        return (f"raised {type(e).__name__}: {e} (callbacks so far: "
                f"{[x[:2] for x in log][-6:]})")
    if sm.current_state_value != "b":
        return f"after three events the state is {sm.current_state_value}, expected b"
    segs = [log[:marks[0]]] + [log[marks[i]:marks[i + 1]] for i in range(3)]
    attach_seg = {"activation": 0, "first-event": 1, "second-event": 2}[at]
    if at == "second-event" and point in ("on_exit_a", "on_enter_b"):
        attach_seg = 3       # these hooks only run for the events leaving a / entering b
    if at == "first-event" and point == "on_enter_a":
        attach_seg = 2       # the first event that enters `a` is the second one
    for si, seg in enumerate(segs):
        ev = "__initial__" if si == 0 else "go"
        own = ("sm", "P") if who == "machine" else ("sm",)
        machine_groups = [g for (l_, g, _e) in seg if l_ in own and g in IN_GROUPS]
        want_m = ["on_enter_state"] if si == 0 else list(IN_GROUPS)
        if machine_groups != want_m:
            return f"event {si} ({ev}): the machine's own callbacks ran as {machine_groups}"
        # the attaching callback itself runs exactly once where it applies
        n_p = sum(1 for (l_, _g, _e) in seg if l_ == "P")
        applies = (si > 0 and (point not in ("on_exit_a", "on_enter_b") or si in (1, 3))) or \
            (si == 0 and point == "on_enter_state")
        if point == "on_enter_a":
            applies = si in (0, 2)
        if n_p != (1 if applies else 0):
            return (f"event {si} ({ev}): the callback `{point}` that attaches the listener ran "
                    f"{n_p} time(s), expected {1 if applies else 0}")
        got_b = [g for (l_, g, _e) in seg if l_ == "B"]
        if si < attach_seg:
            want_lo = want_hi = []
        elif si > attach_seg:
            want_lo = want_hi = list(IN_GROUPS)
        else:
            order = ["vld", "ok"] + list(IN_GROUPS)
            k = order.index(CONV_POINTS.get(point, point))
            later = [g for g in order[k + 1:] if g in IN_GROUPS]
            if si == 0:
                later = []
            want_lo = later
            grp = CONV_POINTS.get(point, point)
            want_hi = ([grp] if grp in IN_GROUPS else []) + later
        if got_b not in (want_lo, want_hi):
            return (f"event {si} ({ev}): the listener attached inside `{point}` received "
                    f"{got_b}, expected {want_lo}" +
                    (f" (or {want_hi})" if want_hi != want_lo else ""))
    return None


# -- one listeners list given to several machines ------------------------------------------------

SHARED_OPS = ("new", "add0", "add1", "send0", "send1", "caller-append")


def shared_sequences(depth):
    out = []
    for n in range(1, depth + 1):
        for seq in itertools.product(SHARED_OPS, repeat=n):
            if "send0" not in seq and "send1" not in seq:
                continue
            if seq[-1] not in ("send0", "send1"):
                continue
            out.append(("new",) + seq)
    return out


def run_shared(seq, asyn, container="list"):
    """The application keeps ONE listeners collection and passes it to every machine it builds.
    Each machine's listeners are the items of the collection when that machine was constructed
    plus what was attached to that very machine later; the caller's collection is never modified
    by the library."""
    from statemachine import State, StateMachine
    calls = []

    def mk(label):
        if asyn:
            async def after_transition(self, machine):
                calls.append((label, machine.tagname))
        else:
            def after_transition(self, machine):
                calls.append((label, machine.tagname))
        return type("Lsn", (), {"after_transition": after_transition, "label": label})()

    class MS(StateMachine):
        a = State(initial=True)
        b = State()
        go = a.to(b) | b.to(a)

    base = [mk("base0"), mk("base1")]
    shared = list(base) if container == "list" else tuple(base)
    caller_view = list(base)          # what the caller itself put into the collection
    machines, expected = [], []
    fresh = 0
    for i, op in enumerate(seq):
        if op == "new":
            if len(machines) >= 2 and False:
                continue
            sm = MS(listeners=shared)
            sm.tagname = f"m{len(machines)}"
            machines.append(sm)
            expected.append([x.label for x in caller_view])
        elif op.startswith("add"):
            k = int(op[3])
            if k >= len(machines):
                continue
            fresh += 1
            lsn = mk(f"late{fresh}")
            try:
                machines[k].add_listener(lsn)
            except Exception as e:   # noqa: BLE001
                return f"step {i} {op}: add_listener raised {type(e).__name__}: {e}"
            expected[k].append(lsn.label)
        elif op == "caller-append":
            if container != "list":
                continue
            fresh += 1
            lsn = mk(f"appended{fresh}")
            shared.append(lsn)
            caller_view.append(lsn)
        else:
            k = int(op[4])
            if k >= len(machines):
                continue
            del calls[:]
            try:
                machines[k].send("go")
            except Exception as e:   # noqa: BLE001
                return f"step {i} {op}: raised {type(e).__name__}: {e}"
            got = [lab for (lab, _m) in calls]
            who = {m for (_l, m) in calls}
            if who - {f"m{k}"}:
                return f"step {i} {op}: listeners were invoked for machine(s) {sorted(who)}"
            if got != expected[k]:
                return (f"step {i} {op} after {list(seq[:i])}: machine m{k} notified {got}, "
                        f"expected {expected[k]} (its constructor listeners + its own late ones)")
        if [x.label for x in shared] != [x.label for x in caller_view]:
            return (f"step {i} {op}: the caller's listeners collection was modified by the "
                    f"library: {[x.label for x in shared]}")
    return None


def worker(block):
    if block[1] == "late-expr":
        res = BlockResult()
        for case in late_expr_cases():
            try:
                with deadline(30):
                    msg, steps = run_late_expr(*case)
            except Hang:
                msg, steps = "hung", 0
            res.stats["states"] += 1
            res.stats["evaluations"] += 1
            res.stats["transitions"] += steps
            res.hist["late-provider-of-expression"] += 1
            if msg:
                res.violation({"category": "late-provider-of-expression", "expr": case[0]},
                              {"late_expr": [case[0], list(case[1]), case[2], case[3]]}, msg)
        return res
    if block[1] == "incb":
        res = BlockResult()
        for case in in_callback_cases():
            try:
                with deadline(30):
                    msg = run_in_callback(*case)
            except Hang:
                msg = "hung"
            res.stats["states"] += 1
            res.stats["evaluations"] += 1
            res.stats["transitions"] += 3
            res.hist["attached-inside-callback"] += 1
            if msg:
                asyn, point, who, at = case
                res.violation({"category": "attach-inside-callback",
                               "engine": "async" if asyn else "sync"},
                              {"incb": list(case)},
                              f"[{'async' if asyn else 'sync'}] add_listener() called from the "
                              f"{who}'s `{point}` during the {at}: {msg}")
        return res
    if block[1] == "shared":
        res = BlockResult()
        for seq in shared_sequences(4 if block[0] == "quick" else 5)[block[2]:block[3]]:
            for asyn in (False, True):
                for container in ("list", "tuple"):
                    if container == "tuple" and "caller-append" in seq:
                        continue
                    try:
                        with deadline(30):
                            msg = run_shared(seq, asyn, container)
                    except Hang:
                        msg = "scenario hung"
                    res.stats["states"] += 1
                    res.stats["evaluations"] += 1
                    res.stats["transitions"] += len(seq)
                    res.hist["shared-collection"] += 1
                    if msg:
                        res.violation({"category": "shared-listeners-collection", "asyn": asyn,
                                       "container": container},
                                      {"shared": list(seq), "asyn": asyn, "container": container},
                                      f"[{'async' if asyn else 'sync'}, {container}] {msg}")
        return res
    if block[1] == "attr":
        res = BlockResult()
        for sc in attr_scenarios()[block[2]:block[3]]:
            try:
                with deadline(30):
                    msg, steps = run_attr_scenario(*sc)
            except Hang:
                msg, steps = "scenario hung", 0
            res.stats["states"] += 1
            res.stats["evaluations"] += 1
            res.stats["transitions"] += steps
            res.hist["attribute-provider"] += 1
            if msg:
                res.violation({"category": "attribute-provider",
                               "construct": msg.startswith("construction")},
                              {"attr": [list(sc[0]), list(sc[1]), list(sc[2]), sc[3], sc[4]]}, msg)
        return res
    tier, kind, lo, hi = block
    res = BlockResult()
    ds = (distributions(tier) if kind == "plain" else expr_distributions())[lo:hi]
    for dist in ds:
        uses_l3 = any("L3" in provs for provs in dist.values())
        for cfg in CFGS:
            if cfg.allow and len(dist) > 1:
                continue
            for attach_at in ((0, 1, 2) if uses_l3 else (None,)):
                for vals in guard_valuations(dist, uses_l3):
                    variants = [(0, False, False, False, None), (0, False, False, True, None)]
                    if len(dist) == 1:
                        variants += [(1, False, False, False, None), (2, False, False, False, None),
                                     (0, True, False, False, None), (0, False, True, False, None),
                                     (2, True, True, False, None), (1, True, False, True, None),
                                     (0, False, False, False, "unhashable"),
                                     (0, False, True, False, "equal"),
                                     (2, False, False, False, "equal"),
                                     (0, False, False, False, "falsy"),
                                     (1, True, False, False, "falsy")]
                    if kind == "expr":
                        # the same listener object listed twice in the constructor: the names of
                        # an expression guard are still read once per provider
                        variants += [(1, False, False, False, None)]
                    variants = [v + (None,) for v in variants]
                    if cfg.engine == "async" and uses_l3 and attach_at == 0:
                        variants.append((0, False, False, False, None, None, True))
                    if cfg.engine == "async" and len(dist) == 1:
                        # mixed listeners: only one of the constructor listeners is a coroutine
                        # provider; the machine must still run (and await) on the async engine
                        variants += [(0, False, False, False, None, "L1"),
                                     (0, False, False, False, None, "L2")]
                    for variant in variants:
                        (reattach, two, same_cls, inst_bound, lkind, only) = variant[:6]
                        lazy = len(variant) > 6 and variant[6]
                        res.stats["evaluations"] += 1
                        sc = {"dist": {k: sorted(v) for k, v in dist.items()},
                              "cfg": list(cfg), "attach_at": attach_at,
                              "vals": [[list(k), v] for k, v in vals.items()],
                              "reattach": reattach, "two": two, "same_cls": same_cls,
                              "inst_bound": inst_bound, "lkind": lkind, "only": only,
                              "expr": kind == "expr", "lazy": lazy}
                        try:
                            with deadline(30):
                                msg, steps = run_scenario(dist, cfg, attach_at, vals, reattach,
                                                          kind == "expr", two, same_cls,
                                                          inst_bound, lkind, only, lazy)
                        except Ambiguous:
                            res.stats["ambiguous_skipped"] += 1
                            continue
                        except Hang:
                            msg, steps = "scenario hung", 0
                        res.stats["states"] += 1
                        res.stats["transitions"] += steps
                        res.hist["late" if uses_l3 else "ctor-only"] += 1
                        if msg:
                            res.violation(classify(msg, dist, vals, kind, cfg, attach_at), sc, msg)
                        elif len(res.samples) < 1 and uses_l3 and len(dist) == 2:
                            res.samples.append(sc)
    return res


def classify(msg, dist, vals, kind, cfg, attach_at):
    cat = "other"
    for key in ("construct", "trace", "stored state", "exception", "outcome kind", "result",
                "phase discipline", "listeners of instance", "allowed_events"):
        if key in msg:
            cat = key
            break
    sig = {"category": cat, "engine": cfg.engine}
    if cat == "construct":
        return sig
    # root causes that are known on the pinned tree get a precise signature
    guard_names = [nm for nm in ("ok", "blocked", "ready") if nm in dist]
    multi = [nm for nm in guard_names if len(dist[nm]) > 1]
    l3_names = [nm for nm in ("ok", "ready") if "L3" in dist.get(nm, ())]
    if kind == "expr" and len(l3_names) == 1:
        # the late listener provides only one of the two names of the expression
        sig["category"] = "late-listener-provides-part-of-expression"
    elif "blocked" in multi and len({vals.get((p, "blocked")) for p in dist["blocked"]}) > 1:
        sig["category"] = "unless-guard-on-several-providers-disagreeing"
    elif cfg.engine == "async" and multi:
        sig["category"] = "async-guard-name-on-several-providers"
    return sig


def run(tier, seed):
    rep = Report(PID, tier, seed)
    n = len(distributions(tier))
    ne = len(expr_distributions())
    step = 40 if tier == "quick" else 400
    blocks = [(tier, "plain", i, min(i + step, n)) for i in range(0, n, step)]
    blocks += [(tier, "expr", i, min(i + 6, ne)) for i in range(0, ne, 6)]
    na = len(attr_scenarios())
    blocks += [(tier, "attr", i, min(i + 400, na)) for i in range(0, na, 400)]
    blocks.append((tier, "incb", 0, 0))
    blocks.append((tier, "late-expr", 0, 0))
    nsh = len(shared_sequences(4 if tier == "quick" else 5))
    blocks += [(tier, "shared", i, min(i + 200, nsh)) for i in range(0, nsh, 200)]
    total, capped = run_blocks(worker, blocks, seed=seed)
    rep.add_violations(total.violations, total.hist_sig)
    rep.harness_errors = total.stats.get("harness_errors", 0)
    rep.notes.extend(total.notes)
    rep.coverage = {
        "states": total.stats["states"],
        "transitions": total.stats["transitions"],
        "traces_validated_against_impl": total.stats["states"],
        "evaluations": total.stats["evaluations"],
        "distributions": n + ne, "names": list(NAMES), "providers": list(P5),
        "outcome_histogram": dict(total.hist),
        "ambiguous_skipped": total.stats["ambiguous_skipped"],
        "samples": total.samples or [{"note": "no sample"}],
        "rule": "states = complete scenarios (distribution x config x attach point x valuation x "
                "re-attachment variant); transitions = operations compared with the reference",
        "violations_total": total.stats.get("violations_total", 0),
        "violations_by_signature": total.hist_sig,
    }
    rep.assumptions = ["reference 'as if defined on the machine' semantics in mc/ref.py",
                       "a guard name provided by several objects must hold on all of them (cond: "
                       "all truthy; unless: all falsy)"]
    return rep.finish(exhaustive=not capped)


def replay(sc):
    if "late_expr" in sc:
        e = sc["late_expr"]
        return run_late_expr(e[0], tuple(e[1]), e[2], e[3])[0]
    if "incb" in sc:
        return run_in_callback(*sc["incb"])
    if "shared" in sc:
        return run_shared(tuple(sc["shared"]), sc["asyn"], sc["container"])
    if "attr" in sc:
        a = sc["attr"]
        return run_attr_scenario(tuple(a[0]), tuple(a[1]), tuple(a[2]), a[3], a[4])[0]
    dist = {k: frozenset(v) for k, v in sc["dist"].items()}
    vals = {tuple(k): v for k, v in sc["vals"]}
    msg, _ = run_scenario(dist, Cfg(*sc["cfg"]), sc["attach_at"], vals, sc["reattach"],
                          sc["expr"], sc["two"], sc["same_cls"], sc.get("inst_bound", False),
                          sc.get("lkind"), sc.get("only"), sc.get("lazy", False))
    return msg

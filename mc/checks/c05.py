"""C05 - async callbacks behave exactly like their synchronous counterparts.

Scenario families of C01 (selection/guards/validators), C02 (groups), C03 (nested sends), C04
(faults) and C14 (results) are rendered with coroutine callbacks (masks: all / guards only /
actions only / a single one / listener only) that contain real await points, and driven both
through the library's sync facade and awaited inside a running loop.  Both drivers run on a
*virtual* asyncio loop; the completion-order explorer enumerates which pending await point
completes next at every quiescence (deviation-bounded DFS, exhausted where small).
Oracle per execution: identical group-wise trace/result/exception/store as the reference
(= the sync twin's semantics), phase discipline from begin/end markers, nothing left pending
when the call returns, no 'never awaited' warning, activation before the first event.
"""

import dataclasses
import gc
import itertools
import warnings

from ..aloop import Deadlock, ReplayDivergence, explore
from ..drive import VL, Pair, install_virtual_loop, typed_vals
from ..env import Plan
from ..machines import GENERIC, ring3
from ..par import BlockResult, Hang, deadline, run_blocks
from ..ref import Ambiguous, Cfg
from ..report import Report
from ..spec import M, S, T, build
from .c01 import cands, mk_machine, valuations

PID = "C05"
DRIVERS = ("vfacade", "vinloop")

_B = {}


def cached_build(key, fn):
    if key not in _B:
        _B[key] = build(fn())
    return _B[key]


# ---------------------------------------------------------------------------------------------
# scenario construction: returns (built, ops, plan, vals) ; ops = list of ("send", ev, vals, tag)


def fam_select(tier):
    """C01-like: K<=2 reduced candidates; coroutine masks; one await point per coroutine."""
    red = cands(False)
    ms = [(c,) for c in cands(True)] + list(itertools.product(red, repeat=2))
    if tier == "quick":
        ms = [(c,) for c in cands(True)] + [cs for i, cs in
                                            enumerate(itertools.product(red, repeat=2)) if i % 4 == 0]
    out = []
    for mi, cs in enumerate(ms):
        for mask in ("all", "guards", "act"):
            out.append(("select", mi, mask))
    return out, ms


def build_select(cs, mask):
    m, names = mk_machine(cs, "all")
    prov = []
    expr_names = set()
    for t in m.trans:
        for e in t.cond + t.unless:
            if " " in e:
                expr_names.update(n for n in ("g1", "g2") if n in e)
    for (p, n, f) in m.provided:
        is_guard = n in ("g1", "g2", "v1")
        fl = ""
        if mask == "all" or (mask == "guards" and is_guard) or (mask == "act" and not is_guard):
            fl = "a"
        if n in expr_names:
            fl = ""     # coroutine guards inside expressions: separate family (known finding)
        prov.append((p, n, fl))
    if not any(f for (_p, _n, f) in prov):
        return None, names
    awaits = tuple((p, n, 1) for (p, n, f) in prov if f)
    m = dataclasses.replace(m, provided=tuple(prov), awaits=awaits)
    return m, names


def fam_ring(tier):
    """C03/C04-like on the ring: nested-send rules and single faults with await points."""
    out = []
    xps = [("a", "before"), ("a", "on"), ("a", "after"), ("b", "exit"), ("b", "enter"),
           ("c", "on"), ("__initial__", "enter")]
    sends = (("a",), ("b", "a"))
    for mask in ("all", "sm-only", "one", "wrapped", "async-wrappers"):
        out.append(("ring", mask, None, ("a",), None))
        out.append(("ring", mask, None, ("b", "c"), None))
        for (x, ph) in xps:
            for prov in ("sm", "L1"):
                for s in sends:
                    hist = () if x == "__initial__" else (x,)
                    out.append(("ring", mask, (x, ph, prov, s), hist + ("a",), None))
    return out


RING_RETS = {("sm", "on_transition"): ValueError("a returned exception object"),
             ("L1", "on_transition"): 0, ("sm", "before_transition"): None,
             ("L1", "before_transition"): KeyError("another one")}


def ring_machine(mask):
    base = ring3(asyn=True, provs=("sm", "L1"))
    prov = []
    for (p, n, f) in base.provided:
        if mask == "all":
            fl = "a"
        elif mask == "sm-only":
            fl = "a" if p == "sm" else ""
        elif mask == "async-wrappers":
            # every callback is an `async def` functools.wraps wrapper around a plain function
            fl = "W"
        elif mask == "wrapped":
            # one real coroutine selects the async engine; every other callback is a plain
            # function that returns an awaitable
            fl = "a" if (p, n) == ("sm", "on_transition") else "w"
        else:
            fl = "a" if (p, n) == ("sm", "on_transition") else ""
        prov.append((p, n, fl))
    aw = tuple((p, n, 1) for (p, n, f) in prov if f)
    return dataclasses.replace(base, provided=tuple(prov), awaits=aw)


# ---------------------------------------------------------------------------------------------


class Exec:
    """One complete execution of a scenario under a chooser."""

    def __init__(self, built, driver, plan=None, allow=False, stored=None, engine="async",
                 listeners_fn=None, model_fn=None):
        self.built = built
        self.cfg = Cfg(engine, True, allow, driver)
        self.plan = plan
        self.stored = stored
        self.listeners_fn = listeners_fn
        self.model_fn = model_fn

    twin = None     # per-op results of the synchronous twin (exact list order)

    def run(self, ch, ops, activate_first):
        vl = VL()
        vl.reset(ch)
        p = Pair(self.built, self.cfg, plan=self.plan, stored=self.stored,
                 listeners=self.listeners_fn() if self.listeners_fn else None,
                 model=self.model_fn() if self.model_fn else None)
        steps = 0
        with warnings.catch_warnings(record=True) as wlist:
            warnings.simplefilter("always")
            try:
                msg = p.construct()
                steps += 1
                if msg is None and activate_first:
                    msg = p.activate() or self._left("activate")
                    steps += 1
                if msg is None:
                    for oi, op in enumerate(ops):
                        msg = p.send(op[1], op[2], tag=op[3]) or self._left(f"send {op[1]}")
                        steps += 1
                        if msg is None and self.twin is not None and p.last[1].kind == "ok":
                            tres, torder = self.twin[oi]
                            order = [(r.cid, r.tag) for r in p.impl.env.flat
                                     if r.event != "__initial__"]
                            if p.last[1].value != tres:
                                msg = (f"send {op[1]}: result {p.last[1].value!r} differs from the "
                                       f"synchronous twin's {tres!r} (same callbacks, other order)")
                            elif order != torder:
                                msg = (f"send {op[1]}: callbacks were started in the order "
                                       f"{[c for c, _ in order]}, the synchronous twin calls them "
                                       f"in the order {[c for c, _ in torder]}")
                        if msg:
                            break
            except Deadlock as e:
                msg = f"deadlock: {e}"
            finally:
                vl.drain_leftovers()
            p = None
            gc.collect(0)
        if msg is None:
            bad = [str(w.message) for w in wlist
                   if "never awaited" in str(w.message) and "processing_loop" not in str(w.message)]
            if bad:
                msg = f"coroutine never awaited: {bad[0]}"
        return msg, steps

    def _left(self, what):
        lo = VL().leftovers()
        if lo:
            return f"{what}: returned while {'; '.join(lo)}"
        return None


def sync_twin_results(twin_built, ops, plan):
    """Runs the scenario on the all-plain twin machine and returns, per send, its result and the
    exact order in which the callbacks were called."""
    p = Pair(twin_built, Cfg("sync", True, False, "direct"), plan=plan)
    out = []
    if p.construct():
        return None
    for op in ops:
        if p.send(op[1], op[2], tag=op[3]):
            return None
        out.append((p.last[1].value if p.last[1].kind == "ok" else None,
                    [(r.cid, r.tag) for r in p.impl.env.flat]))
    return out


def explore_scenario(res, sc_json, built, driver, ops, plan, bound, allow=False,
                     activate_first=False, max_execs=3000, engine="async", listeners_fn=None,
                     twin=None, model_fn=None):
    ex = Exec(built, driver, plan=plan, allow=allow, engine=engine, listeners_fn=listeners_fn,
              model_fn=model_fn)
    ex.twin = twin
    state = {"msg": None, "choices": None, "steps": 0, "outcomes": set()}

    def run_fn(ch):
        # the deadline is per execution (one schedule); the exploration as a whole is bounded by
        # max_execs, never by wall-clock time
        try:
            with deadline(60):
                msg, steps = ex.run(ch, ops, activate_first)
        except Hang:
            install_virtual_loop()
            msg, steps = "hung: one execution did not finish within 60 s", 0
        state["steps"] += steps
        if msg and state["msg"] is None:
            # replay once more before trusting it
            ch2 = type(ch)(ch.choices, ch.batch)
            msg2, _ = ex.run(ch2, ops, activate_first)
            if (msg2 is None) or ch2.choices != ch.choices:
                state["msg"] = f"NONDETERMINISTIC-REPLAY first: {msg} second: {msg2}"
            else:
                state["msg"] = msg
            state["choices"] = ch.choices

    try:
        st = explore(run_fn, bound=bound, max_execs=max_execs)
    except Ambiguous:
        res.stats["ambiguous_skipped"] += 1
        return
    except ReplayDivergence as e:
        res.violation({"category": "replay-divergence"}, sc_json, f"harness: {e}")
        return
    res.stats["schedules"] += st["executions"]
    res.stats["states"] += st["executions"]
    res.stats["transitions"] += state["steps"]
    res.stats["max_points_max"] = max(res.stats.get("max_points_max", 0), st["max_points"])
    if st["capped"]:
        res.stats["capped_scenarios"] += 1
    res.hist[f"schedules_per_scenario<={_bucket(st['executions'])}"] += 1
    if state["msg"]:
        res.violation({"category": _cat(state["msg"]), "family": sc_json["family"],
                       "driver": driver, "mask": sc_json.get("mask")},
                      dict(sc_json, driver=driver, choices=state["choices"]), state["msg"])
    elif len(res.samples) < 1 and st["executions"] > 3:
        res.samples.append(dict(sc_json, driver=driver, schedules=st["executions"]))


def _bucket(n):
    for b in (1, 2, 8, 32, 128, 512, 4096):
        if n <= b:
            return b
    return 99999


def _cat(msg):
    for key in ("hung", "NONDETERMINISTIC", "still suspended", "still pending", "ready queue",
                "never awaited", "deadlock", "phase discipline", "nested send return",
                "result", "trace", "stored state", "exception", "outcome kind", "dirty"):
        if key in msg:
            return key
    return "other"


def fam_listener(tier):
    """One class whose own callbacks are plain functions, instantiated in turn with plain and
    coroutine listeners (constructor-attached): the engine choice and awaiting must follow the
    *instance*, whatever was instantiated before."""
    out = []
    for order in (("sync", "async"), ("async", "sync"), ("async", "async"), ("sync", "async", "sync")):
        for hist in (("a",), ("b", "a")):
            out.append(("listener", order, hist))
    return out


def fam_model(tier):
    """One class whose own callbacks are plain functions and that is given no listener,
    instantiated in turn over plain and coroutine *models*: the engine choice and awaiting must
    follow the instance's model, whatever was instantiated before."""
    out = []
    for order in (("sync", "async"), ("async", "sync"), ("sync", "async", "sync")):
        for hist in (("a",), ("b", "a")):
            out.append(("model", order, hist))
    return out


def model_machine():
    base = ring3(asyn=False, provs=("sm", "model"))
    aw = tuple((p, n, 1) for (p, n, f) in base.provided if p == "model")
    return dataclasses.replace(base, awaits=aw)


def listener_machine():
    base = ring3(asyn=False, provs=("sm", "L1"))
    aw = tuple((p, n, 1) for (p, n, f) in base.provided if p == "L1")
    return dataclasses.replace(base, awaits=aw)


def fam_threads(tier):
    return [("threads", mask, hist) for mask in ("all", "one")
            for hist in (("a", "b"), ("a", "a", "c"), ("b", "a", "a"))]


def run_threads(res, mask, hist):
    """The sync facade used in turn from different threads that have no loop: each thread gets
    its own (real) event loop from the library; the machine must not care."""
    import asyncio
    import threading
    built = cached_build(("ring", mask), lambda: ring_machine(mask))
    asyncio.set_event_loop_policy(None)
    try:
        for rules in ({}, {(("sm", GENERIC["after"]), "a"): (("b",), 1)}):
            p = Pair(built, Cfg("async", True, False, "facade"), plan=Plan(rules=rules))
            box = {}

            def in_thread(fn):
                def body():
                    try:
                        box["r"] = fn()
                    except BaseException as e:   # noqa: BLE001 - reported below
                        box["r"] = f"harness thread raised {type(e).__name__}: {e}"
                t = threading.Thread(target=body)
                t.start()
                t.join(30)
                if t.is_alive():
                    return "thread did not finish within 30 s"
                return box["r"]
            msg = in_thread(p.construct)
            for i, ev in enumerate(hist):
                if msg:
                    break
                msg = in_thread(lambda ev=ev, i=i: p.send(ev, {}, tag=f"e{i}"))
            res.stats["states"] += 1
            res.stats["schedules"] += 1
            res.stats["transitions"] += p.steps
            res.hist["thread-turn"] += 1
            if msg:
                res.violation({"category": "thread-turn:" + _cat(msg), "mask": mask},
                              {"family": "threads", "mask": mask, "history": list(hist),
                               "rules": bool(rules)}, msg)
    finally:
        install_virtual_loop()


EXPR_TAIL = ("s1 and g2", "s1 or g2", "(s1 or s3) and g2", "s1 and s3 and g2", "not s1 and g2",
             "s1 ^ g2", "!s1 v g2", "s1 and (s3 or g2)")


def fam_exprtail(tier):
    """Boolean guard expressions whose plain operands come first and whose *last evaluated*
    operand is a coroutine guard: the combinators hand the pending coroutine through and it is
    awaited like any other guard (this is not the known finding, which is about coroutine
    operands that are not in tail position, negated or compared)."""
    return [("exprtail", expr, grp) for expr in EXPR_TAIL for grp in ("cond", "unless")]


def run_exprtail(res, expr, grp, tier, only_driver=None):
    m = M(states=(S("A", initial=True), S("B")),
          trans=(T("A", "B", ("go",), **{grp: (expr,)}), T("A", "A", ("go",)),
                 T("B", "A", ("back",))),
          provided=(("sm", "s1", ""), ("sm", "s3", ""), ("sm", "g2", "a"),
                    ("sm", "after_transition", "a")),
          awaits=(("sm", "g2", 1), ("sm", "after_transition", 1)))
    built = cached_build(("exprtail", expr, grp), lambda: m)
    salt = 0
    for v in valuations(["s1", "s3", "g2"]):
        salt += 1
        tv = typed_vals(v, salt)
        for driver in DRIVERS:
            if only_driver and driver != only_driver:
                continue
            scj = {"family": "exprtail", "expr": expr, "group": grp, "vals": repr(tv),
                   "tier": tier, "mask": "tail"}
            explore_scenario(res, scj, built, driver, [("send", "go", tv, "e1")], None, None,
                             activate_first=(salt % 2 == 0))


def fam_known(tier):
    return [("known", "async-guard-in-expression"),
            ("known", "async-guard-name-on-several-providers"),
            ("known", "async-listener-added-late-to-sync-engine")]


def run_known(res, which, tier):
    """Inputs on which the pinned library is known to deviate (see known_findings.json); each is
    explored like any other scenario and reported under its own signature."""
    from ..spec import _mk
    sig = {"category": "known:" + which}
    if which == "async-guard-in-expression":
        for expr in ("g1 and g2", "g1 or g2", "not g1", "!g1 ^ g2"):
            m = M(states=(S("A", initial=True), S("B")),
                  trans=(T("A", "B", ("go",), cond=(expr,)), T("B", "A", ("back",))),
                  provided=(("sm", "g1", "a"), ("sm", "g2", "a"), ("sm", "after_transition", "a")),
                  awaits=(("sm", "g1", 1), ("sm", "g2", 1)))
            built = build(m)
            for v in valuations(["g1", "g2"]):
                for driver in DRIVERS:
                    scj = {"family": "known", "which": which, "expr": expr, "vals": v}
                    r2 = BlockResult()
                    explore_scenario(r2, scj, built, driver, [("send", "go", dict(v), "e1")],
                                     None, None)
                    _fold(res, r2, sig)
    elif which == "async-guard-name-on-several-providers":
        m = M(states=(S("A", initial=True), S("B")),
              trans=(T("A", "B", ("go",), cond=("ok",)), T("B", "A", ("back",))),
              provided=(("sm", "ok", "a"), ("L1", "ok", "a"), ("sm", "after_transition", "a")),
              listeners=("L1",), awaits=(("sm", "ok", 1), ("L1", "ok", 1)))
        built = build(m)
        for a, b in itertools.product((True, False), repeat=2):
            for driver in DRIVERS:
                v = {("sm", "ok"): a, ("L1", "ok"): b}
                scj = {"family": "known", "which": which, "vals": [a, b]}
                r2 = BlockResult()
                explore_scenario(r2, scj, built, driver, [("send", "go", v, "e1")], None, None)
                _fold(res, r2, sig)
    else:
        m_with = M(states=(S("A", initial=True), S("B")),
                   trans=(T("A", "B", ("go",)), T("B", "A", ("back",))),
                   provided=(("sm", "after_transition", ""), ("L1", "on_enter_state", "a"),
                             ("L1", "before_go", "a")), listeners=("L1",))
        m_without = dataclasses.replace(m_with, listeners=(), provided=m_with.provided[:1])
        built = build(m_with)
        from ..drive import Pair as _P
        p = _P(built, Cfg("sync", True, False, "direct"), listeners=[])
        p.ref.m = m_without
        msg = p.construct()
        if msg is None:
            p.impl.sm.add_listener(built.listener_cls["L1"]())
            p.ref.m = m_with
            with warnings.catch_warnings():
                warnings.simplefilter("ignore")
                msg = p.send("go", {}, tag="e1")
                gc.collect(0)
        res.stats["states"] += 1
        res.stats["schedules"] += 1
        res.stats["transitions"] += 2
        if msg:
            res.violation(sig, {"family": "known", "which": which}, msg)


def _fold(res, r2, sig):
    for k, v in r2.stats.items():
        if k.endswith("_max"):
            res.stats[k] = max(res.stats.get(k, 0), v)
        elif k != "violations_total":
            res.stats[k] += v
    res.hist.update(r2.hist)
    for v in r2.violations[:3]:
        res.violation(sig, v["scenario"], v["message"])


def scenarios(tier):
    sel, ms = fam_select(tier)
    return sel + fam_ring(tier) + fam_listener(tier) + fam_model(tier) + fam_threads(tier) + \
        fam_exprtail(tier) + fam_known(tier), ms


def worker(block):
    tier, lo, hi = block
    install_virtual_loop()
    res = BlockResult()
    scs, ms = scenarios(tier)
    bound = 2 if tier == "quick" else None
    for sc in scs[lo:hi]:
        run_one(res, sc, ms, tier, bound)
    return res


def run_one(res, sc, ms, tier, bound, only_driver=None, only=None):
    if sc[0] == "select":
        _, mi, mask = sc
        cs = ms[mi]
        m, names = build_select(cs, mask)
        if m is None:
            return
        built = cached_build(("select", mi, mask), lambda: m)
        salt = 0
        for ev in ("go", "go_back"):
            for v in (valuations(names) if names else [{}]):
                salt += 1
                tv = typed_vals(v, salt)
                for driver in DRIVERS:
                    if only_driver and driver != only_driver:
                        continue
                    if only and (ev, salt) != only:
                        continue
                    for allow in (False, True) if tier == "thorough" else (False,):
                        scj = {"family": "select", "mi": mi, "mask": mask, "event": ev,
                               "salt": salt, "allow": allow, "tier": tier}
                        explore_scenario(res, scj, built, driver, [("send", ev, tv, "e1")], None,
                                         None, allow=allow,
                                         activate_first=(salt % 2 == 0))
    elif sc[0] == "known":
        run_known(res, sc[1], tier)
    elif sc[0] == "exprtail":
        run_exprtail(res, sc[1], sc[2], tier, only_driver)
    elif sc[0] == "threads":
        run_threads(res, sc[1], sc[2])
    elif sc[0] == "model":
        from ..spec import _mk, _model_init
        _, order, hist = sc
        built = cached_build(("model",), model_machine)
        names = [n for (p, n, f) in built.m.provided if p == "model"]
        mcls = {"sync": built.model_cls,
                "async": type("Mod", (), dict({"_prov": "model", "__init__": _model_init},
                                              **{n: _mk(n, "a") for n in names}))}
        ops = [("send", ev, {}, f"e{i}") for i, ev in enumerate(hist)]
        for driver in DRIVERS:
            if only_driver and driver != only_driver:
                continue
            for k, kind in enumerate(order):
                scj = {"family": "model", "order": list(order), "index": k,
                       "history": list(hist), "tier": tier, "mask": kind}
                explore_scenario(res, scj, built, driver if kind == "async" else "direct", ops,
                                 None, bound, engine="async" if kind == "async" else "sync",
                                 model_fn=lambda kind=kind: mcls[kind]())
    elif sc[0] == "listener":
        from ..spec import _mk
        _, order, hist = sc
        built = cached_build(("listener",), listener_machine)
        names = [n for (p, n, f) in built.m.provided if p == "L1"]
        lcls = {"sync": built.listener_cls["L1"],
                "async": type("L1", (), dict({"_prov": "L1"}, **{n: _mk(n, "a") for n in names}))}
        ops = [("send", ev, {}, f"e{i}") for i, ev in enumerate(hist)]
        for driver in DRIVERS:
            if only_driver and driver != only_driver:
                continue
            for k, kind in enumerate(order):
                scj = {"family": "listener", "order": list(order), "index": k,
                       "history": list(hist), "tier": tier, "mask": kind}
                explore_scenario(res, scj, built, driver if kind == "async" else "direct", ops,
                                 None, bound, engine="async" if kind == "async" else "sync",
                                 listeners_fn=lambda kind=kind: [lcls[kind]()])
    else:
        _, mask, rule, hist, _ = sc
        built = cached_build(("ring", mask), lambda: ring_machine(mask))
        rules = {}
        if rule:
            (x, ph, prov, sends) = rule
            rules = {((prov, GENERIC[ph]), x): (tuple(sends), 1)}
        ops = [("send", ev, {}, f"e{i}") for i, ev in enumerate(hist)]
        # one base scenario per mask returns unusual values from before/on callbacks: an
        # exception *object*, a falsy value, None - returned values are data on both engines
        rets = RING_RETS if (rule is None and hist == ("b", "c")) else {}
        twin_built = cached_build(("ring-twin",), lambda: ring3(asyn=False, provs=("sm", "L1")))
        try:
            # (with a rule on the initial enter the lazy async activation legitimately shifts
            # work from construction into the first send: no per-send twin comparison then)
            twin = None if (rule and rule[0] == "__initial__") else \
                sync_twin_results(twin_built, ops, Plan(rules=rules, rets=rets))
        except Ambiguous:
            twin = None
        for driver in DRIVERS:
            if only_driver and driver != only_driver:
                continue
            scj = {"family": "ring", "mask": mask, "rule": list(rule) if rule else None,
                   "history": list(hist), "tier": tier, "fault": None}
            explore_scenario(res, scj, built, driver, ops, Plan(rules=rules, rets=rets), bound,
                             max_execs=1500 if tier == "quick" else 40000, twin=twin)
        # single faults at every position of the fault-free run (positions from the reference)
        if mask == "all" and (rule is None or tier == "thorough"):
            from .c04 import positions
            from ..ref import Ref
            ref = Ref(built.m, Cfg("async", True, False, "vfacade"), plan=Plan(rules=rules))
            try:
                outs = [ref.construct()] + [ref.send(ev, {}, tag=f"e{i}")
                                            for i, ev in enumerate(hist)]
            except Ambiguous:
                return
            for k, (key, _ti, gk) in enumerate(positions(outs)):
                ops2 = ops + [("send", "b", {}, "f0")]
                scj = {"family": "ring-fault", "mask": mask, "rule": list(rule) if rule else None,
                       "history": list(hist), "tier": tier,
                       "fault": [list(key[0]), key[1], key[2], k]}
                # both drivers for every fault (the fault's exception class rotates with k: the
                # driver must not be tied to k as well)
                for driver in DRIVERS:
                    if only_driver and driver != only_driver:
                        continue
                    explore_scenario(res, scj, built, driver, ops2,
                                     Plan(rules=rules, faults={key: k}),
                                     1 if tier == "quick" else 2,
                                     max_execs=300 if tier == "quick" else 5000)


def run(tier, seed):
    rep = Report(PID, tier, seed)
    scs, _ = scenarios(tier)
    step = 6
    blocks = [(tier, i, min(i + step, len(scs))) for i in range(0, len(scs), step)]
    total, capped = run_blocks(worker, blocks, seed=seed)
    rep.add_violations(total.violations, total.hist_sig)
    rep.harness_errors = total.stats.get("harness_errors", 0)
    rep.notes.extend(total.notes)
    caps = None
    if total.stats["capped_scenarios"]:
        caps = {"scenarios_whose_schedule_space_hit_max_execs": total.stats["capped_scenarios"]}
    rep.coverage = {
        "states": total.stats["states"],
        "transitions": total.stats["transitions"],
        "traces_validated_against_impl": total.stats["states"],
        "schedules": total.stats["schedules"],
        "scenarios": len(scs), "drivers": list(DRIVERS),
        "deviation_bound": "select family: exhausted; ring family: 2 (quick) / exhausted (thorough); "
                           "fault family: 1 (quick) / 2 (thorough)",
        "max_choice_points_in_one_execution": total.stats.get("max_points_max", 0),
        "outcome_histogram": dict(total.hist),
        "ambiguous_skipped": total.stats["ambiguous_skipped"],
        "samples": total.samples or [{"note": "no sample"}],
        "rule": "states = complete executions (one per explored completion order), transitions = "
                "operations compared with the reference inside those executions",
        "violations_total": total.stats.get("violations_total", 0),
    }
    rep.assumptions = ["virtual loop keeps asyncio's FIFO ready queue; nondeterminism is injected "
                       "only at completion of awaited futures", "reference mc/ref.py"]
    return rep.finish(exhaustive=not capped and not caps, caps=caps)


def replay(sc):
    install_virtual_loop()
    res = BlockResult()
    tier = sc.get("tier", "quick")
    scs, ms = scenarios(tier)
    if sc["family"] == "known":
        run_known(res, sc["which"], tier)
        return res.violations[0]["message"] if res.violations else None
    if sc["family"] == "threads":
        run_threads(res, sc["mask"], tuple(sc["history"]))
        return res.violations[0]["message"] if res.violations else None
    if sc["family"] == "exprtail":
        run_exprtail(res, sc["expr"], sc["group"], tier, sc.get("driver"))
        for v in res.violations:
            if v["scenario"].get("vals") == sc.get("vals"):
                return v["message"]
        return None
    if sc["family"] == "model":
        run_one(res, ("model", tuple(sc["order"]), tuple(sc["history"])), ms, tier,
                2 if tier == "quick" else None)
        return res.violations[0]["message"] if res.violations else None
    if sc["family"] == "listener":
        run_one(res, ("listener", tuple(sc["order"]), tuple(sc["history"])), ms, tier,
                2 if tier == "quick" else None)
        return res.violations[0]["message"] if res.violations else None
    if sc["family"] == "select":
        run_one(res, ("select", sc["mi"], sc["mask"]), ms, tier, None, only_driver=sc["driver"],
                only=(sc["event"], sc["salt"]))
    else:
        rule = tuple(sc["rule"][:3]) + (tuple(sc["rule"][3]),) if sc["rule"] else None
        run_one(res, ("ring", sc["mask"], rule, tuple(sc["history"]), None), ms, tier,
                2 if tier == "quick" else None, only_driver=None)
    for v in res.violations:
        if v["scenario"].get("fault") == sc.get("fault") and v["scenario"].get("driver") == sc["driver"]:
            return v["message"]
    return None

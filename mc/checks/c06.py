"""C06 - concurrent senders: mutual exclusion, exactly-once, nothing stranded.

One ring machine (every event always enabled), n senders each sending 1-2 tagged events.
 * asyncio half: async machine, senders are tasks started together on the virtual loop; the
   completion-order explorer enumerates which pending await point (sender start, callback await)
   completes next.
 * thread half: sync machine (RTC), senders are OS threads under a baton; every source line of
   the dispatch code, every lock operation and one explicit yield inside each callback is a
   scheduling point; all schedules with at most B preemptions are enumerated.
Oracles on every complete schedule: (O1) callback spans of different event instances never
overlap; (O2) every sent event instance (and every nested one) is processed exactly once;
(O3) each sender's events in its sending order; (O4) nothing stranded: queue empty, lock free,
processed = sent once all senders returned; (O5) sequential consistency: each processed event
starts from the state the previous one ended in and ends in the reference's target, final
store included; (O6) no deadlock/exception; a failing schedule is replayed once more.
"""

import itertools

from ..aloop import Chooser, ReplayDivergence, explore, first_level
from ..drive import VL, Impl, install_virtual_loop, lock_held, queue_len
from ..env import CUR, Plan
from ..machines import GENERIC, ring3
from ..par import BlockResult, Hang, deadline, run_blocks
from ..ref import Cfg
from ..report import Report
from ..spec import build
from .. import tsched

PID = "C06"
_B = {}
NEXT = {"a": 1, "b": 0, "c": 0}


def machine(asyn, gated=False):
    if gated:
        k = (asyn, "gated")
        if k not in _B:
            import dataclasses
            # guarded ring: s0 -a-> s1 -a-> s2, s2 has no `a`, `r` exists only in s2 (s2 -> s0)
            m = ring3(asyn=asyn, provs=("sm",), guarded=True)
            if asyn:
                aw = tuple((p, n, 1) for (p, n, f) in m.provided
                           if n in ("on_transition", "on_enter_state", "after_transition"))
                m = dataclasses.replace(m, awaits=aw)
            _B[k] = build(m)
        return _B[k]
    if asyn not in _B:
        import dataclasses
        m = ring3(asyn=asyn, provs=("sm",))
        if asyn:
            aw = tuple((p, n, 1) for (p, n, f) in m.provided
                       if n in ("on_transition", "on_enter_state", "after_transition"))
            m = dataclasses.replace(m, awaits=aw)
        _B[asyn] = build(m)
    return _B[asyn]


# harness variants: (senders' event lists, nested rule?, tolerant?)
def variants(tier, half):
    out = []
    two = [(("a",), ("a",)), (("a",), ("b",)), (("a", "b"), ("a",)), (("c", "a"), ("a", "a"))]
    three = [(("a",), ("a",), ("b",)), (("a",), ("b",), ("a", "a"))]
    four = [(("a",), ("a",), ("b",), ("a",))]
    for ev in two:
        out.append((ev, False))
    out.append(((("a",), ("b",)), True))
    out.append(((("a", "a"), ("a",)), True))
    for ev in three:
        out.append((ev, False))
    if tier == "thorough" or half == "async":
        for ev in four:
            out.append((ev, False))
    # identical events: every sender sends the very same event with the very same arguments
    out.append(((("a",), ("a",), ("a",)), "anon"))
    out.append(((("a", "a"), ("a",)), "anon"))
    # tolerant machine whose events are enabled in some states only: whether a sent event takes
    # effect is decided when it is dequeued (linearization oracle)
    out.append(((("a", "a"), ("r",)), "gated"))
    out.append(((("a",), ("a", "r")), "gated"))
    out.append(((("a",), ("a",), ("r",)), "gated"))
    if half == "async":
        # one task activates the (not yet active) machine explicitly while others send events:
        # the activation's callbacks are a critical section like any event's
        out.append(((("__activate__",), ("a",)), False))
        out.append(((("__activate__",), ("a",), ("b",)), False))
        # the first sender's task is cancelled at some point (a timeout around `await send`):
        # whatever it was doing is cut short there and then - nothing of it keeps running
        # beside the events of the other sender
        out.append(((("a",), ("a",)), "cancel"))
        out.append(((("a", "b"), ("a",)), "cancel"))
    if half == "threads":
        # the first sender's event fails in its `on` callback (C04 meets C06): the exception
        # reaches exactly the caller that was processing it, and the other sender's event is
        # processed normally or dropped with the queue - never stranded, never run twice
        out.append(((("a",), ("b",)), "fault"))
        # one sender fires an event while the other attaches a listener (callbacks.py is traced
        # as well): afterwards the listener takes part in every group of every event, and during
        # the race in every group at most once
        out.append(((("a",), ()), "listener-race"))
        # two machines of one class, each driven by its own thread: whatever the class keeps
        # (descriptors, registries, caches) must not let one instance's trigger reach the other
        out.append(((("a",), ("a",)), "two-machines"))
        out.append(((("a", "b"), ("a",)), "two-machines"))
        # the second sender first attaches a listener whose only callback is a coroutine
        # function (never awaited on the sync engine - C05's known finding - and irrelevant
        # here): attaching must not disturb the mutual exclusion of the events
        out.append(((("a",), ("b",)), "late-async-listener"))
    return out


RULE = {(("sm", GENERIC["after"]), "a"): (("b",), 2)}


# -- oracles -------------------------------------------------------------------------------------

def check_fifo(env, calls, order):
    """O9: one queue, first in first out, whoever sent: an event whose send() had already
    returned before the callback that sends a nested event had even begun was enqueued first and
    is processed first."""
    pos = {t: i for i, t in enumerate(order)}
    for (cid, _ev, tag, _r) in env.nested_returns:
        ptag = tag.rsplit("/", 1)[0]
        parent = next((r for r in env.flat if r.tag == ptag and r.cid == cid), None)
        if parent is None or tag not in pos:
            continue
        for c in calls:
            if c.get("ret") in (None, float("inf")) or c["tag"] not in pos:
                continue
            if c["ret"] < parent.seq_begin and pos[c["tag"]] > pos[tag]:
                return (f"O9 FIFO: {c['tag']} was enqueued (its send had returned at t={c['ret']}) "
                        f"before {parent.brief()} began (t={parent.seq_begin}) and sent {tag}, "
                        f"yet {tag} was processed first (order {order})")
    return None


def check_results(env, calls, idents):
    """O8: what a sender's call returns is the result of the first event that very call
    processed (the caller's thread drained it), built from that event's callbacks only, and
    None when the call processed nothing (another sender's drain took the event over)."""
    for c in calls:
        if c.get("ret") in (None, float("inf")) or "result" not in c:
            continue
        mine = [r for r in env.flat if r.thread == idents.get(c["sender"]) and
                c["inv"] < r.seq_begin < c["ret"] and r.event != "__initial__"]
        first = mine[0].tag if mine else None
        res = c["result"]
        flat = res if isinstance(res, list) else [res]
        tags = [x.rsplit("@", 1)[1] for x in flat if isinstance(x, str) and "@" in x]
        if first is None:
            if res is not None:
                return (f"O8 result: the call sending {c['tag']} processed no event itself but "
                        f"returned {res!r}")
        elif not tags or any(t != first for t in tags):
            return (f"O8 result: the call sending {c['tag']} processed {first} first (then "
                    f"{[t for t in dict.fromkeys(r.tag for r in mine)][1:]}) but returned {res!r}")
    return None


def lrace_machine():
    if "lrace" not in _B:
        import dataclasses
        m = ring3(asyn=False, provs=("sm", "L0", "L1"))
        _B["lrace"] = build(dataclasses.replace(m, listeners=()))
    return _B["lrace"]


def check_lrace(env, sm, errors, deadlock):
    if deadlock:
        return deadlock
    if errors:
        t, e = errors[0]
        return f"sender {t} raised {type(e).__name__}: {e}"
    for tag in ("S0.0", "post1", "post2", "post3"):
        own = [r.cid[1] for r in env.flat if r.tag == tag and r.cid[0] == "sm"]
        lis = [r.cid[1] for r in env.flat if r.tag == tag and r.cid[0] == "L1"]
        if own != PATTERN_A:
            return f"L1 event {tag}: the machine's own callbacks ran as {own}"
        if tag == "S0.0":
            if len(set(lis)) != len(lis) or not set(lis) <= set(PATTERN_A):
                return (f"L2 the listener attached while {tag} was running received {lis}: "
                        f"every group at most once")
        elif lis != PATTERN_A:
            return (f"L3 event {tag} (sent after the listener had been attached): the listener "
                    f"received {lis}, expected {PATTERN_A}")
    if queue_len(sm) or lock_held(sm):
        return f"O4 stranded: queue {queue_len(sm)}, lock {lock_held(sm)}"
    return None, ("lrace", tuple(r.cid[1] for r in env.flat if r.tag == "S0.0" and r.cid[0] == "L1"))


def check_two(env, sms, events, tags, errors, deadlock):
    """Sender i drives machine i (same class).  Every machine runs exactly its own sender's
    events, in order, and ends where they lead; nothing of the other sender reaches it."""
    if deadlock:
        return deadlock
    if errors:
        t, e = errors[0]
        return f"sender {t} raised {type(e).__name__}: {e}"
    for i, sm in enumerate(sms):
        recs = [r for r in env.flat if r.mid == id(sm) and r.event != "__initial__"]
        foreign = sorted({r.tag for r in recs if r.tag not in tags[i]})
        if foreign:
            return (f"M1 machine {i} ran callbacks for {foreign}: events sent to the other "
                    f"instance of the class")
        cur = 0
        for k, t in enumerate(tags[i]):
            ev = events[i][k]
            names = [r.cid[1] for r in recs if r.tag == t]
            want = ["before_transition", "on_transition", "after_transition"] if ev == "c" else \
                PATTERN_A
            if names != want:
                return f"M2 machine {i}, event {t}: callbacks {names}, expected {want}"
            cur = (cur + NEXT[ev]) % 3
        if sm.current_state_value != f"s{cur}":
            return f"M3 machine {i}: final state {sm.current_state_value}, expected s{cur}"
        if queue_len(sm) or lock_held(sm):
            return f"O4 stranded: machine {i} queue {queue_len(sm)}, lock {lock_held(sm)}"
    return None, ("two",)


def check_cancel(env, sm, errors, deadlock):
    """The first sender's task was cancelled somewhere.  At most one event is cut short (a
    prefix of its callback sequence), the callbacks of different events never overlap, nothing
    keeps running or stays queued, and the state is the one the completed entries lead to."""
    if deadlock:
        return deadlock
    if errors:
        t, e = errors[0]
        return f"sender {t} raised {type(e).__name__}: {e}"
    recs = [r for r in env.flat if r.event != "__initial__"]
    spans, order, per = {}, [], {}
    for r in recs:
        if not r.ended:
            return f"{r.brief()} never finished"
        if r.tag not in spans:
            spans[r.tag] = [r.seq_begin, r.seq_end]
            order.append(r.tag)
        else:
            spans[r.tag][1] = max(spans[r.tag][1], r.seq_end)
        per.setdefault(r.tag, []).append(r)
    init = [r for r in env.flat if r.event == "__initial__"]
    prev_end, prev = max([r.seq_end for r in init], default=-1), "the activation"
    for t in order:
        if spans[t][0] < prev_end:
            return (f"O1 overlap: callbacks of event {t} began (t={spans[t][0]}) before {prev} "
                    f"had finished (t={prev_end})")
        prev_end, prev = spans[t][1], f"event {t}"
    partial = entered = 0
    for t in order:
        names = [r.cid[1] for r in per[t]]
        if names != PATTERN_A[:len(names)]:
            return f"X1 event {t}: callbacks {names} are not a prefix of {PATTERN_A}"
        partial += len(names) < len(PATTERN_A)
        if "on_enter_state" in names:
            entered += NEXT[per[t][0].event]      # (b is a self-loop: entered, not advanced)
    if partial > 1:
        return f"X2 more than one event was cut short: {[(t, len(per[t])) for t in order]}"
    qlen, locked = queue_len(sm), lock_held(sm)
    if qlen or locked:
        return f"O4 stranded: queue length {qlen}, lock held {locked} after all senders returned"
    if init and sm.current_state_value != f"s{entered % 3}":
        return f"X3 final state {sm.current_state_value}, expected s{entered % 3}"
    return None, tuple(order)


FAULT_K = 1


def fault_plan(built):
    ti = next(i for i, t in enumerate(built.m.trans)
              if (t.src, t.dst, t.events) == ("s0", "s1", ("a",)))
    return {(("sm", "on_transition"), "S0.0", ti): FAULT_K}


def check_fault(env, sm, calls, errors, deadlock, idents):
    """Senders ((a,), (b,)); a's `on` callback raises.  `b` is a self-loop on s0."""
    from ..env import make_boom
    if deadlock:
        return deadlock
    recs = [r for r in env.flat if r.event != "__initial__"]
    fa = [r for r in recs if r.tag == "S0.0"]
    fb = [r for r in recs if r.tag == "S1.0"]
    names_a = [r.cid[1] for r in fa]
    if names_a != ["before_transition", "on_exit_state", "on_transition"]:
        return f"F1 the failing event ran {names_a}"
    by = {v: k for k, v in idents.items()}.get(fa[0].thread)
    want = make_boom(FAULT_K)
    if len(errors) != 1 or errors[0][0] != by or type(errors[0][1]) is not type(want) or \
            errors[0][1].args != want.args:
        return (f"F2 the exception of the failing callback must reach exactly the caller that "
                f"was processing the event (sender {by}); senders that raised: "
                f"{[(t, type(e).__name__) for t, e in errors]}")
    names_b = [r.cid[1] for r in fb]
    if names_b and names_b != PATTERN_A:
        return f"F3 the other event ran {names_b}"
    if fb and fa:
        if not (fb[-1].seq_end < fa[0].seq_begin or fa[-1].seq_end < fb[0].seq_begin):
            return "O1 overlap: the callbacks of the two events interleave"
    fault_t = fa[-1].seq_begin
    cb = next(c for c in calls if c["tag"] == "S1.0")
    ca = next(c for c in calls if c["sender"] == by) if by is not None else None
    qlen, locked = queue_len(sm), lock_held(sm)
    if locked:
        return "O4 stranded: the lock is still held after all senders returned"
    if qlen:
        # (the failing caller's own call never "returns": it raises)
        ca_ret = float("inf") if (ca is None or ca["ret"] is None) else ca["ret"]
        inflight = cb["ret"] is not None and fault_t < cb["ret"] < ca_ret and by == 0 and not fb
        if inflight:
            return ("O4K stranded: the other sender's event was enqueued after the failing "
                    "drainer had emptied the queue and before it released the lock; the sender "
                    "gave up (lock busy), nobody processes the event until the next send")
        return f"O4 stranded: queue length {qlen} after all senders returned"
    # (an event of the other sender that was never processed was dropped with the queue: it had
    # been enqueued before the failing drainer emptied it - the logical clock of the callbacks
    # cannot place that moment more precisely, so no further condition is put on it)
    if sm.current_state_value != "s0":
        return f"F5 final state {sm.current_state_value}, expected s0 (the failing event's source)"
    return None, ("fault", bool(fb), by)


def check(env, sm, sender_tags, errors, deadlock, init_value="s0"):
    if deadlock:
        return deadlock
    if errors:
        t, e = errors[0]
        return f"sender {t} raised {type(e).__name__}: {e}"
    spans = {}
    order = []
    ons = {}
    per_tag = {}
    init = [r for r in env.flat if r.event == "__initial__"]
    rest = [r for r in env.flat if r.event != "__initial__"]
    if init and rest:
        if any(not r.ended for r in init):
            return "the initial activation never finished"
        end_init = max(r.seq_end for r in init)
        first = min(rest, key=lambda r: r.seq_begin)
        if first.seq_begin < end_init:
            return (f"O1 overlap: {first.brief()} began (t={first.seq_begin}) before the callbacks "
                    f"of the initial activation had finished (t={end_init})")
    for r in env.flat:
        if r.event == "__initial__":
            continue
        if not r.ended:
            return f"{r.brief()} never finished"
        t = r.tag
        if t not in spans:
            spans[t] = [r.seq_begin, r.seq_end]
            order.append(t)
        else:
            spans[t][0] = min(spans[t][0], r.seq_begin)
            spans[t][1] = max(spans[t][1], r.seq_end)
        per_tag.setdefault(t, []).append(r)
        if r.cid[1] == "on_transition":
            ons[t] = ons.get(t, 0) + 1
    # O1 mutual exclusion
    prev_end, prev_tag = -1, None
    for t in order:
        b, e = spans[t]
        if b < prev_end:
            return (f"O1 overlap: callbacks of event {t} began (t={b}) before event {prev_tag} "
                    f"had finished (t={prev_end})")
        if e > prev_end:
            prev_end, prev_tag = e, t
    # O2 exactly once (sent + nested)
    expected = [t for tags in sender_tags for t in tags] + [n[2] for n in env.nested_returns]
    for t in expected:
        if ons.get(t, 0) != 1:
            return f"O2 event instance {t} was processed {ons.get(t, 0)} times"
    extra = set(ons) - set(expected)
    if extra:
        return f"O2 unexpected event instances processed: {sorted(extra)}"
    # O3 per-sender order
    pos = {t: i for i, t in enumerate(order)}
    for tags in sender_tags:
        for x, y in zip(tags, tags[1:]):
            if pos[x] > pos[y]:
                return f"O3 sender order: {y} processed before {x}"
    # O4 nothing stranded
    qlen, locked = queue_len(sm), lock_held(sm)
    if qlen or locked:
        return (f"O4 stranded: queue length {qlen}, lock held {locked} after "
                f"all senders returned")
    # O5 sequential consistency along the observed processing order
    cur = 0
    for t in order:
        recs = per_tag[t]
        ev = recs[0].event
        src, dst = f"s{cur}", f"s{(cur + NEXT[ev]) % 3}"
        names = [r.cid[1] for r in recs]
        want = ["before_transition", "on_transition", "after_transition"] if ev == "c" else \
            ["before_transition", "on_exit_state", "on_transition", "on_enter_state",
             "after_transition"]
        if names != want:
            return f"O5 event {t}: callback sequence {names}, expected {want}"
        for r in recs:
            if r.source != src or r.target != dst:
                return (f"O5 event {t}: ran {r.source}->{r.target}, expected {src}->{dst} "
                        f"(processing order {order})")
            exp_cur = src if r.cid[1] in ("before_transition", "on_exit_state",
                                          "on_transition") else dst
            if r.cur != exp_cur:
                return f"O5 event {t}: {r.brief()} saw current state {r.cur}, expected {exp_cur}"
        cur = (cur + NEXT[ev]) % 3
    if sm.current_state_value != f"s{cur}":
        return f"O5 final state {sm.current_state_value}, expected s{cur}"
    return None, tuple(order)


PATTERN_A = ["before_transition", "on_exit_state", "on_transition", "on_enter_state",
             "after_transition"]


def check_anon(env, sm, n_sends, errors, deadlock):
    """All senders send the identical event `a` (same arguments): instances cannot be told apart,
    so the oracle counts - exactly n_sends complete, non-overlapping callback sequences, final
    state advanced n_sends times, nothing stranded."""
    if deadlock:
        return deadlock
    if errors:
        t, e = errors[0]
        return f"sender {t} raised {type(e).__name__}: {e}"
    recs = [r for r in env.flat if r.event != "__initial__"]
    for r in recs:
        if not r.ended:
            return f"{r.brief()} never finished"
    names = [r.cid[1] for r in recs]
    if names != PATTERN_A * n_sends:
        k = len(names) // 5
        return (f"O2 {n_sends} identical events were sent but the callbacks ran as {k} sequence(s)"
                f"{'' if names == PATTERN_A * k else ' (interleaved: ' + str(names) + ')'}")
    last_end = -1
    for r in recs:
        if r.seq_begin < last_end:
            return f"O1 overlap at {r.brief()}"
        last_end = r.seq_end
    qlen, locked = queue_len(sm), lock_held(sm)
    if qlen or locked:
        return f"O4 stranded: queue length {qlen}, lock held {locked}"
    if sm.current_state_value != f"s{n_sends % 3}":
        return f"O5 final state {sm.current_state_value}, expected s{n_sends % 3}"
    return None, ("anon", n_sends)


GATED_NEXT = {("s0", "a"): "s1", ("s1", "a"): "s2", ("s2", "r"): "s0",
              ("s0", "b"): "s0", ("s1", "b"): "s1", ("s2", "b"): "s2"}


def check_gated(env, sm, sends, errors, deadlock):
    """sends: list of dicts {tag, ev, sender, k, inv, ret} (logical clock of the call and of its
    return).  The machine tolerates events without transition, so an event takes effect or not
    depending on the state it meets when it is dequeued.  Oracle: some total order of the sent
    events - consistent with each sender's order, with real time (a call that returned before
    another was made comes first) and with FIFO (an event whose callbacks had already started
    when another was sent comes first) - explains, replayed sequentially, exactly the observed
    callback sequences and the final state."""
    if deadlock:
        return deadlock
    if errors:
        t, e = errors[0]
        return f"sender {t} raised {type(e).__name__}: {e}"
    recs = [r for r in env.flat if r.event != "__initial__"]
    for r in recs:
        if not r.ended:
            return f"{r.brief()} never finished"
    last_end, last = -1, None
    observed, first_cb = [], {}
    for r in recs:
        if r.tag not in first_cb:
            first_cb[r.tag] = r.seq_begin
            observed.append([r.tag, r.event, r.source, r.target, []])
            if r.seq_begin < last_end:
                return f"O1 overlap: callbacks of {r.tag} began before {last} had finished"
        elif observed[-1][0] != r.tag:
            return f"O1 overlap: callbacks of {r.tag} interleave with those of {observed[-1][0]}"
        observed[-1][4].append(r.cid[1])
        if r.seq_end > last_end:
            last_end, last = r.seq_end, r.tag
    qlen, locked = queue_len(sm), lock_held(sm)
    if qlen or locked:
        return f"O4 stranded: queue length {qlen}, lock held {locked}"
    final = sm.current_state_value
    obs_eff = [(t, src, dst) for (t, _ev, src, dst, _n) in observed]
    for perm in itertools.permutations(sends):
        pos = {x["tag"]: i for i, x in enumerate(perm)}
        ok = True
        for x in sends:
            for y in sends:
                if x is y:
                    continue
                must = (x["sender"] == y["sender"] and x["k"] < y["k"]) or x["ret"] < y["inv"] or \
                    (x["tag"] in first_cb and first_cb[x["tag"]] < y["inv"])
                if must and pos[x["tag"]] > pos[y["tag"]]:
                    ok = False
                    break
            if not ok:
                break
        if not ok:
            continue
        cur, eff = "s0", []
        for x in perm:
            nxt = GATED_NEXT.get((cur, x["ev"]))
            if nxt is not None:
                eff.append((x["tag"], cur, nxt))
                cur = nxt
        if eff == obs_eff and cur == final:
            return None, tuple(t for (t, _s, _d) in eff)
    return (f"O7 no sequential order of the sent events {[(x['tag'], x['ev']) for x in sends]} that "
            f"respects sender order, real time and FIFO explains the observation: effective "
            f"transitions {obs_eff}, final state {final} (calls: "
            f"{[(x['tag'], x['inv'], x['ret']) for x in sends]}, first callbacks {first_cb})")


# -- asyncio half -------------------------------------------------------------------------------

def run_async(ch, events, nested, pre_activate):
    import asyncio
    gated = nested == "gated"
    built = machine(True, gated)
    vl = VL()
    vl.reset(ch)
    impl = Impl(built, Cfg("async", True, gated, "vinloop"),
                plan=Plan(rules=RULE if nested is True else {}))
    env = impl.env
    env.vals = {"g1": True, "v1": True}
    calls = []
    anon = nested == "anon"
    tags = [[("same" if anon else f"S{i}.{k}") for k in range(len(evs))]
            for i, evs in enumerate(events)]
    errors = []

    async def sender(i):
        await vl.point(("S", i, "start"))
        for k, ev in enumerate(events[i]):
            if ev == "__activate__":
                try:
                    await impl.sm.activate_initial_state()
                except Exception as e:   # noqa: BLE001
                    errors.append((i, e))
                continue
            env.seq += 1
            call = {"tag": tags[i][k], "ev": ev, "sender": i, "k": k, "inv": env.seq, "ret": None}
            calls.append(call)
            try:
                await impl.sm.send(ev, tag=tags[i][k])
            except Exception as e:   # noqa: BLE001
                errors.append((i, e))
            env.seq += 1
            call["ret"] = env.seq

    cancel = nested == "cancel"

    async def canceller(tasks):
        await vl.point(("X", "cancel"))
        tasks[0].cancel()

    async def main():
        if pre_activate:
            await impl.sm.activate_initial_state()
        if cancel:
            tasks = [asyncio.ensure_future(sender(i)) for i in range(len(events))]
            await asyncio.gather(canceller(tasks), *tasks, return_exceptions=True)
            return
        await asyncio.gather(*(sender(i) for i in range(len(events))))

    deadlock = None
    impl.construct()
    CUR.env = env
    try:
        vl.run_until_complete(main())
    except Exception as e:   # noqa: BLE001
        deadlock = f"driver raised {type(e).__name__}: {e}"
    finally:
        CUR.env = None
    left = vl.leftovers()
    vl.drain_leftovers()
    if left and not deadlock:
        return f"after all senders returned: {'; '.join(left)}", None
    if anon:
        r = check_anon(env, impl.sm, sum(map(len, events)), errors, deadlock)
    elif cancel:
        r = check_cancel(env, impl.sm, errors, deadlock)
    elif gated:
        r = check_gated(env, impl.sm, calls, errors, deadlock)
    else:
        real = [[t for t, ev in zip(ts, evs) if ev != "__activate__"]
                for ts, evs in zip(tags, events)]
        r = check(env, impl.sm, real, errors, deadlock)
    return r if isinstance(r, tuple) else (r, None)


# -- thread half --------------------------------------------------------------------------------

class InternalsChanged(Exception):
    pass


class _AsyncOnly:
    async def after_transition(self):
        return None


def run_threads(ch, events, nested, files, only_lines=None, stateful=False):
    gated = nested == "gated"
    built = machine(False, gated)
    lrace = nested == "listener-race"
    if lrace:
        import os
        from ..cli_env import repo_dir
        built = lrace_machine()
        files = set(files) | {os.path.join(os.path.realpath(repo_dir()), "statemachine",
                                           "callbacks.py")}
    calls = []
    with tsched.patched_lock():
        anon = nested == "anon"
        fault = nested == "fault"
        impl = Impl(built, Cfg("sync", True, gated, "direct"),
                    plan=Plan(rules=RULE if nested is True else {},
                              faults=fault_plan(built) if fault else {}))
        env = impl.env
        env.vals = {"g1": True, "v1": True}
        env.flat_mode = True
        env.record_thread = True
        env.yield_hook = tsched.yield_point
        impl.construct()
        two = nested == "two-machines"
        sms = [impl.sm]
        if two:
            impl2 = Impl(built, Cfg("sync", True, gated, "direct"), env=env)
            impl2.construct()
            sms.append(impl2.sm)
        env.top, env.flat, env.stack = [], [], []
        tags = [[("same" if anon else f"S{i}.{k}") for k in range(len(evs))]
                for i, evs in enumerate(events)]
        sm = impl.sm
        if lrace:
            # an earlier late attachment: the groups of the transition about to fire have not
            # run since their membership last changed
            sm.add_listener(built.listener_cls["L0"]())
        if stateful and (queue_len(sm) is None or lock_held(sm) is None):
            # the hashed state would miss the queue / the lock: pruning would be unsound
            raise InternalsChanged("engine queue/lock are not where the pinned tree keeps them")

        progress = [0] * len(events)

        idents = {}

        def body(i):
            def fn():
                import threading
                idents[i] = threading.get_ident()
                if nested == "late-async-listener" and i == 1:
                    sm.add_listener(_AsyncOnly())
                if lrace and i == 1:
                    sm.add_listener(built.listener_cls["L1"]())
                for k, ev in enumerate(events[i]):
                    progress[i] = k
                    env.seq += 1
                    call = {"tag": tags[i][k], "ev": ev, "sender": i, "k": k, "inv": env.seq,
                            "ret": None,
                            # what had already happened when this call was made (part of the
                            # hashed state: the oracle's ordering constraints depend on it)
                            "seen": (tuple(sorted({r.tag for r in env.flat})),
                                     tuple(sorted(c2["tag"] for c2 in calls
                                                  if c2["ret"] is not None)))}
                    calls.append(call)
                    call["result"] = (sms[i] if two else sm).send(ev, tag=tags[i][k])
                    env.seq += 1
                    call["ret"] = env.seq
                progress[i] = len(events[i])
            return fn

        def state_fn():
            eng = sm._engine
            return (tuple(progress),
                    tuple(td.kwargs.get("tag") for td in eng._external_queue),
                    lock_held(sm),
                    repr(sm.current_state_value),
                    tuple((r.tag, r.cid[1], r.ended) for r in env.flat),
                    tuple(sorted(env.fired.items())),
                    tuple((c["tag"], c["seen"], c["ret"] is not None) for c in calls)
                    if gated else ())
        CUR.env = env
        try:
            s = tsched.Sched(ch, files, only_lines=only_lines,
                             state_fn=state_fn if stateful else None)
            s.run([body(i) for i in range(len(events))])
            if lrace and not s.errors and not s.deadlock:
                for k in (1, 2, 3):      # back to s0 and through the raced transition again
                    sm.send("a", tag=f"post{k}")
        finally:
            CUR.env = None
    if anon:
        r = check_anon(env, sm, sum(map(len, events)), s.errors, s.deadlock)
    elif gated:
        for c in calls:
            if c["ret"] is None:
                c["ret"] = float("inf")
        r = check_gated(env, sm, calls, s.errors, s.deadlock)
    elif lrace:
        r = check_lrace(env, sm, s.errors, s.deadlock)
    elif two:
        r = check_two(env, sms, events, tags, s.errors, s.deadlock)
    elif fault:
        r = check_fault(env, sm, calls, s.errors, s.deadlock, idents)
    else:
        r = check(env, sm, tags, s.errors, s.deadlock)
    if isinstance(r, tuple) and r[0] is None and not anon and not gated and not fault and not two and not lrace:
        # (on the gated machine an ignored event leaves no callback behind: which event a call
        # processed first cannot be observed there)
        r8 = check_results(env, calls, idents) or check_fifo(env, calls, r[1])
        if r8:
            r = r8
    return (r if isinstance(r, tuple) else (r, None)) + (s.npoints,)


# -- exploration drivers ------------------------------------------------------------------------

def explore_stateful(res, vi, variant, tier, coarse):
    """Explicit-state exploration of the thread half with NO preemption bound: the canonical
    global state (running thread, every thread's frames inside the dispatch code with their
    simple locals, queue contents, lock, stored state, records so far) is hashed at every
    scheduling point and a state reached before is not expanded again."""
    from ..cli_env import repo_dir
    events, nested = variant
    files = tsched.traced_files(repo_dir(), thorough=False)
    only = tsched.shared_access_lines(files) if coarse else None
    st = {"msg": None, "choices": None, "orders": set()}

    def fn(ch):
        return run_threads(ch, events, nested, files, only, stateful=True)[:2]

    def run_fn(ch):
        msg, order = fn(ch)
        if order:
            st["orders"].add(order)
        if msg and st["msg"] is None:
            ch2 = Chooser(ch.choices, ch.batch)
            msg2, _ = fn(ch2)
            st["msg"] = msg if (msg2 and ch2.choices == ch.choices) else \
                f"NONDETERMINISTIC-REPLAY first: {msg} second: {msg2}"
            st["choices"] = ch.choices
    cap = 40000 if tier == "quick" else 400000
    try:
        stt = explore(run_fn, bound=None, seen={}, max_execs=cap,
                      time_cap=900 if tier == "quick" else 2400)
    except InternalsChanged as e:
        res.notes.append(f"explicit-state exploration of variant {vi} skipped: {e}; the "
                         f"preemption-bounded exploration still covers it")
        return
    except ReplayDivergence as e:
        res.violation({"category": "replay-divergence", "half": "threads-stateful"},
                      {"half": "threads-stateful", "variant": vi}, f"harness: {e}")
        return
    label = f"threads-stateful-{'coarse' if coarse else 'line'}:v{vi}"
    res.stats["schedules"] += stt["executions"]
    res.stats["states"] += stt["states"] or 0
    res.stats["transitions"] += stt["executions"] * sum(map(len, events))
    res.stats["stateful_states"] += stt["states"] or 0
    res.hist[label + ":executions"] += stt["executions"]
    res.hist[label + ":distinct_states"] += stt["states"] or 0
    res.hist[label + ":distinct_orders"] += len(st["orders"])
    if stt["capped"]:
        res.stats["capped_scenarios"] += 1
        res.hist[label + ":CAPPED"] += 1
    if st["msg"]:
        res.violation({"category": _cat(st["msg"]), "half": "threads-stateful"},
                      {"half": "threads", "variant": vi, "events": [list(e) for e in events],
                       "nested": nested, "pre_activate": None, "choices": st["choices"],
                       "tier": tier, "coarse": coarse}, st["msg"])


def explore_variant(res, half, vi, variant, tier, roots=None, root_run=True):
    events, nested = variant
    n = len(events)
    if half == "async":
        bound = None if (n == 2 and sum(map(len, events)) <= 3) or tier == "thorough" and n <= 2 \
            else (3 if tier == "thorough" else 2)
        if n >= 4:
            bound = 2 if tier == "thorough" else 1
        runs = [(pa, lambda ch, pa=pa: run_async(ch, events, nested, pa)) for pa in (True, False)]
    else:
        from ..cli_env import repo_dir
        files = tsched.traced_files(repo_dir(), thorough=(tier == "thorough"))
        total_sends = sum(map(len, events))
        if tier == "quick":
            # bound 2 where the default schedule is short (two single sends), else 1
            bound = 2 if (n == 2 and total_sends == 2 and nested in (False, "anon")) else 1
        else:
            bound = {2: 3 if (total_sends == 2 and nested is not True) else 2, 3: 2, 4: 1}[n]
        if nested == "listener-race":
            bound = 1        # every line of callbacks.py is a scheduling point here
        runs = [(None, lambda ch: run_threads(ch, events, nested, files)[:2])]
    for (pa, fn) in runs:
        st = {"msg": None, "choices": None, "orders": set()}

        def run_fn(ch):
            msg, order = fn(ch)
            if order:
                st["orders"].add(order)
            if msg and st["msg"] is None:
                ch2 = Chooser(ch.choices, ch.batch)
                msg2, _ = fn(ch2)
                if msg2 is None or ch2.choices != ch.choices:
                    st["msg"] = f"NONDETERMINISTIC-REPLAY first: {msg} second: {msg2}"
                else:
                    st["msg"] = msg
                st["choices"] = ch.choices
        try:
            tc = 900 if tier == "quick" else 2400
            if roots is None:
                stt = explore(run_fn, bound=bound, time_cap=tc)
            else:
                stt = explore(run_fn, bound=bound, roots=roots, time_cap=tc)
            if stt["capped"]:
                res.stats["capped_scenarios"] += 1
                res.hist[f"{half}:v{vi}:TIME-CAPPED"] += 1
        except ReplayDivergence as e:
            res.violation({"category": "replay-divergence", "half": half},
                          {"half": half, "variant": vi}, f"harness: {e}")
            continue
        res.stats["schedules"] += stt["executions"]
        res.stats["states"] += stt["executions"]
        res.stats["transitions"] += stt["executions"] * sum(map(len, events))
        res.stats["max_points_max"] = max(res.stats.get("max_points_max", 0), stt["max_points"])
        res.hist[f"{half}:n={n}:bound={bound}"] += stt["executions"]
        res.stats[f"distinct_orders_{half}_v{vi}"] += 0
        res.notes_orders = getattr(res, "notes_orders", {})
        res.notes_orders.setdefault((half, vi), set()).update(st["orders"])
        if st["msg"]:
            res.violation({"category": _cat(st["msg"]), "half": half},
                          {"half": half, "variant": vi, "events": [list(e) for e in events],
                           "nested": nested, "pre_activate": pa, "choices": st["choices"],
                           "tier": tier}, st["msg"])


def _cat(msg):
    if "O4K" in msg:
        return "event-enqueued-while-failing-drainer-holds-the-lock-is-stranded"
    for key in ("NONDETERMINISTIC", "O1", "O2", "O3", "O4", "O5", "O7", "O8", "O9", "M1", "M2", "M3", "L1", "L2", "L3", "X1", "X2", "X3", "F1", "F2", "F3", "F4",
                "F5", "deadlock", "hang", "raised",
                "never finished", "suspended", "pending"):
        if key in msg:
            return key
    return "other"


def worker(block):
    half, tier, vi, roots = block
    res = BlockResult()
    if half == "async":
        install_virtual_loop()
    if half.startswith("stateful"):
        variant = variants(tier, "threads")[vi]
        # (every single execution has its own timeout inside the scheduler; the exploration as
        # a whole is bounded by max_execs and a wall-clock cap that is reported as a cap)
        explore_stateful(res, vi, variant, tier, coarse=(half == "stateful-coarse"))
        return res
    variant = variants(tier, half)[vi]
    explore_variant(res, half, vi, variant, tier, roots=roots)
    orders = getattr(res, "notes_orders", {})
    for (h, v), s in orders.items():
        res.stats[f"distinct_orders_{h}_v{v}_max"] = len(s)
    return res


def run(tier, seed):
    rep = Report(PID, tier, seed)
    blocks = []
    for vi, v in enumerate(variants(tier, "async")):
        blocks.append(("async", tier, vi, None))
    # thread half: split each variant's schedule tree by first-level prefixes
    from ..cli_env import repo_dir
    files = tsched.traced_files(repo_dir(), thorough=(tier == "thorough"))
    points_per_exec = {}
    for vi, (events, nested) in enumerate(variants(tier, "threads")):
        roots, npts = first_level(lambda ch: run_threads(ch, events, nested, files)[:2])
        points_per_exec[vi] = npts
        blocks.append(("threads", tier, vi, [[]][:0] or None) if False else
                      ("threads", tier, vi, [[]]))
        # the root run itself is in the block above only as prefix [] *without* its subtree:
        chunk = max(1, len(roots) // 24)
        for i in range(0, len(roots), chunk):
            blocks.append(("threads", tier, vi, roots[i:i + chunk]))
    # the [[]] root explores the whole tree; replace it by a root-only run
    blocks = [b for b in blocks if not (b[0] == "threads" and b[3] == [[]])]
    # explicit-state, unbounded preemptions
    for vi, (events, nested) in enumerate(variants(tier, "threads")):
        n, total_sends = len(events), sum(map(len, events))
        if nested in ("two-machines", "listener-race"):
            continue      # the hashed state describes one machine / no listener registry
        if n == 2 and (tier == "thorough" or (total_sends == 2 and nested in (False, "anon"))):
            blocks.append(("stateful-line", tier, vi, None))
        if n == 2 or (n == 3 and (tier == "thorough" or nested == "anon")):
            blocks.append(("stateful-coarse", tier, vi, None))
    total, capped = run_blocks(worker, blocks, seed=seed)
    rep.add_violations(total.violations, total.hist_sig)
    rep.harness_errors = total.stats.get("harness_errors", 0)
    rep.notes.extend(total.notes)
    orders = {k[len("distinct_orders_"):-4]: v for k, v in total.stats.items()
              if k.startswith("distinct_orders_") and k.endswith("_max")}
    rep.coverage = {
        "states": total.stats["states"] + len(points_per_exec),
        "transitions": total.stats["transitions"],
        "traces_validated_against_impl": total.stats["states"],
        "schedules": total.stats["schedules"] + len(points_per_exec),
        "schedules_by_harness": dict(total.hist),
        "thread_scheduling_points_in_default_schedule": points_per_exec,
        "max_choice_points_in_one_execution": total.stats.get("max_points_max", 0),
        "distinct_processing_orders_observed_per_variant(max over workers)": orders,
        "variants": {"async": [[list(map(list, e)), n] for e, n in variants(tier, "async")],
                     "threads": [[list(map(list, e)), n] for e, n in variants(tier, "threads")]},
        "explicit_state": "thread half additionally explored with NO preemption bound and state "
                          "hashing: line granularity for two single-send senders (thorough: every "
                          "2-sender variant), shared-access granularity (queue/lock lines) for every "
                          "2-sender variant (thorough: 3 senders too); see schedules_by_harness",
        "bounds": "asyncio: exhausted for 2 senders with <=3 sends, else deviation bound 2 (quick) / 3 "
                  "(thorough), 4 senders bound 1/2; threads (quick): preemption bound 2 for two "
                  "single-send senders, 1 for every other variant; threads (thorough): 3 for two "
                  "single-send senders, 2 for other 2- and 3-sender variants, 1 for 4 senders",
        "samples": [{"half": "threads", "events": [["a"], ["a"]], "schedule": "prefix of choices, "
                     "e.g. [0,0,0,1] = pre-empt sender 0 at its 4th scheduling point"}],
        "rule": "states = complete schedules executed on the real library; every one is checked "
                "against O1-O6",
        "violations_total": total.stats.get("violations_total", 0),
    }
    rep.assumptions = ["scheduling granularity: source line / await point under the GIL",
                       "scheduler-aware lock replaces threading.Lock inside the engines"]
    caps = None
    if total.stats.get("capped_scenarios"):
        caps = {"stateful_explorations_that_hit_their_execution_cap": total.stats["capped_scenarios"]}
    return rep.finish(exhaustive=not capped and not caps, caps=caps)


def replay(sc):
    tier = sc.get("tier", "quick")
    events = [tuple(e) for e in sc["events"]]
    ch = Chooser(sc["choices"])
    if sc["half"] == "async":
        install_virtual_loop()
        msg, _ = run_async(ch, events, sc["nested"], sc["pre_activate"])
    else:
        from ..cli_env import repo_dir
        if "coarse" in sc:
            files = tsched.traced_files(repo_dir(), thorough=False)
            only = tsched.shared_access_lines(files) if sc["coarse"] else None
            msg, _, _ = run_threads(ch, events, sc["nested"], files, only, stateful=True)
        else:
            files = tsched.traced_files(repo_dir(), thorough=(tier == "thorough"))
            msg, _, _ = run_threads(ch, events, sc["nested"], files)
    return msg

"""C04 - a failing callback leaves a consistent, usable machine (fault enumeration).

Base scenarios: ring machine R3 with <=1 nested-send rule and a short history, plus the
guarded ring G3 (validator, guard, an event that is not allowed when its queued turn comes).
Crash points: *every* callback invocation position of the fault-free run (taken from the
reference trace, which was validated equal to the implementation's).  Each position is
re-run with an injected exception (class rotates over Exception/RuntimeError/LookupError/
AttributeError/TypeError families); afterwards three follow-up events are processed, and in
the double-fault family a second fault is injected at every position of the first follow-up.
Oracle: reference with fault semantics (mc/ref.py): same exception object class/args at the
outermost caller, stored state = source (validators..on) or target (enter/after), dropped
queue never runs, follow-ups processed normally; queue empty and lock free after every call.
"""

import itertools

from ..drive import Pair, queue_len
from ..env import Plan
from ..machines import PROVS
from ..par import BlockResult, Hang, deadline, run_blocks
from ..ref import Ambiguous, Cfg
from ..report import Report
from .c03 import CFGS as C03_CFGS, XP, built_for, rule

PID = "C04"

CFGS = C03_CFGS + (Cfg("sync", True, True, "direct"), Cfg("async", True, True, "facade"))


def base_scenarios(tier):
    """(guarded, rules, history, vals) tuples."""
    out = []
    sends = (("a",), ("b",), ("a", "b")) if tier == "quick" else \
        (("a",), ("b",), ("c",), ("a", "b"), ("b", "a"), ("a", "a"))
    hl_rule = 1 if tier == "quick" else 2
    for L in range(0, 3):
        for h in itertools.product("abc", repeat=L):
            out.append((False, (), h, None))
    for (x, ph) in XP:
        for prov in PROVS:
            for s in sends:
                for L in range(0, hl_rule + 1):
                    for h in itertools.product("abc", repeat=L):
                        if not h and x != "__initial__":
                            continue
                        out.append((False, (rule(x, ph, prov, s, 1),), h, None))
    # guarded ring: validator/guard crash points, queued event that is not allowed
    gvals = [{"g1": True, "v1": True}, {"g1": False, "v1": True}, {"g1": True, "v1": False},
             {"g1": ("raise", 7), "v1": True}, {"g1": ("raise", 8), "v1": False}]
    grules = [(), (rule("a", "after", "sm", ("a", "a", "a"), 1),),
              (rule("a", "before", "sm", ("a", "a", "b"), 1),),
              (rule("b", "on", "L1", ("a", "a", "a"), 1),),
              (rule("__initial__", "enter", "model", ("a", "a", "a", "b"), 1),)]
    for v in gvals:
        for rs in grules:
            for L in range(0 if rs and rs[0][0][1] == "__initial__" else 1, 3):
                for h in itertools.product("abr", repeat=L):
                    out.append((True, rs, h, v))
    return out


def positions(outcomes):
    pos = []

    def walk(groups, top_index):
        for g in groups:
            for c in g.calls:
                if c.kind in ("act", "val"):
                    pos.append(((c.cid, c.tag, c.tidx), top_index, g.kind))
                walk(c.children, top_index)
    for i, o in enumerate(outcomes):
        walk(o.groups, i)
    return pos


def run_with(guarded, rules, hist, vals, cfg, faults, followups, collect=None):
    """Runs construct + history + follow-ups with the given fault plan.
    Returns (message|None, pair, outcomes)."""
    built = built_for(cfg.engine == "async", guarded)
    plan = Plan(rules=dict(rules), faults=faults)
    p = Pair(built, cfg, plan=plan)
    outs = []
    r = p.construct()
    if r:
        return r, p, outs
    outs.append(p.last[0])
    if p.last[0].kind == "exc":
        # the constructor itself failed (fault during initial activation): there is no
        # machine object to continue with; resuming over the model is C11's subject
        return None, p, outs
    for i, ev in enumerate(hist):
        r = p.send(ev, vals or {}, tag=f"e{i}")
        if r:
            return f"history step {i} ({ev}): {r}", p, outs
        outs.append(p.last[0])
        r = p.check_views()
        if r:
            return f"after history step {i} ({ev}): {r}", p, outs
    for j, ev in enumerate(followups):
        r = p.send(ev, vals or {}, tag=f"f{j}")
        if r:
            return f"follow-up {j} ({ev}) after the failure: {r}", p, outs
        outs.append(p.last[0])
        r = p.check_views()
        if r:
            return f"after follow-up {j} ({ev}): {r}", p, outs
    return None, p, outs


def sc_json(guarded, rules, hist, vals, cfg, faults, followups):
    return {"guarded": guarded,
            "rules": [[list(c), x, list(r[0]), r[1]] + list(r[2:]) for ((c, x), r) in rules],
            "history": list(hist), "vals": vals, "cfg": list(cfg),
            "faults": [[list(c), t, i, k] for (c, t, i), k in faults.items()],
            "followups": list(followups)}


def property_faults(res):
    """Guards / actions supplied as *properties* (of the machine, the model or a listener) that
    start failing later: the exception - whatever its class, AttributeError included - must reach
    the caller, the state stays the source, and the machine keeps working afterwards."""
    from statemachine import State, StateMachine
    from statemachine.factory import StateMachineMetaclass
    from ..env import BOOMS
    for asyn in (False, True):
        for where in ("machine", "model", "listener"):
            for role in ("cond", "unless", "validators", "on"):
                for ci, exc_cls in enumerate(BOOMS):
                    holder = {"fail": False, "reads": 0}

                    def getter(self, holder=holder, exc_cls=exc_cls, role=role):
                        holder["reads"] += 1
                        if holder["fail"]:
                            raise exc_cls(77)
                        return role != "unless"
                    sa, sb = State(initial=True), State()
                    kw = {role: "probe"}
                    ns = {"a": sa, "b": sb, "go": sa.to(sb, **kw) | sb.to(sa)}
                    if asyn:
                        async def after_transition(self):
                            return None
                        ns["after_transition"] = after_transition
                    mod_ns, lis_ns = {"state": None}, {}
                    {"machine": ns, "model": mod_ns, "listener": lis_ns}[where]["probe"] = \
                        property(getter)
                    cls = StateMachineMetaclass("PF", (StateMachine,), ns)
                    sm = cls(type("PMod", (), mod_ns)(), listeners=[type("PLis", (), lis_ns)()])
                    sm.activate_initial_state()
                    res.stats["evaluations"] += 1
                    res.hist["property-fault"] += 1
                    sc = {"property_fault": [asyn, where, role, ci]}
                    holder["fail"] = True
                    try:
                        r = sm.send("go")
                        got = ("ok", r)
                    except Exception as e:   # noqa: BLE001
                        got = ("exc", type(e).__name__, e.args)
                    want = ("exc", exc_cls.__name__, (77,))
                    msg = None
                    if got != want:
                        msg = (f"{role} given as a property of the {where} raised "
                               f"{exc_cls.__name__}(77): send() gave {got}, expected {want}")
                    elif sm.current_state.id != "a":
                        msg = f"state after the failing {role} is {sm.current_state.id}, expected a"
                    else:
                        holder["fail"] = False
                        try:
                            sm.send("go")
                        except Exception as e:   # noqa: BLE001
                            msg = f"follow-up event after the failure raised {type(e).__name__}: {e}"
                        else:
                            if sm.current_state.id != "b":
                                msg = "follow-up event after the failure was not processed"
                    if msg:
                        res.violation({"category": "property-fault", "role": role,
                                       "exc": exc_cls.__name__}, sc,
                                      f"[{'async' if asyn else 'sync'}] {msg}")


class Abort(BaseException):
    """An application-defined BaseException (like KeyboardInterrupt / SystemExit / CancelledError
    it is not an Exception subclass)."""


def _base_excs():
    import asyncio
    return {"Abort": Abort, "KeyboardInterrupt": KeyboardInterrupt, "SystemExit": SystemExit,
            "CancelledError": asyncio.CancelledError}


BE_PHASES = ("v", "g", "before_go", "on_exit_a", "on_go", "on_enter_b", "after_go")
BE_ENGINES = ("sync", "sync-nonrtc", "async", "async-cancel")


def base_exception_case(engine, phase, exc_name):
    """`pre` (internal, in a) queues `go` and `nxt` from its `on` callback; `go` (a -> b) fails in `phase`
    with a BaseException that is not an Exception; `nxt` is still waiting at that moment.
    engine 'async-cancel': instead of raising, the callback of `phase` suspends and the task
    running the event is cancelled from outside (a timeout)."""
    import asyncio

    from statemachine import State, StateMachine
    from statemachine.factory import StateMachineMetaclass
    asyn = engine.startswith("async")
    exc_cls = _base_excs()[exc_name]
    log = []
    gate = {}
    ns = {}
    a_ = "async " if asyn else ""
    aw = "await " if asyn else ""
    src = f"""
{a_}def on_pre(self):
    log.append('on_pre')
    r1 = {aw}self.send('go')
    r2 = {aw}self.send('nxt')
    log.append(('nested', r1, r2))
    return 'pre-result'
{a_}def on_nxt(self):
    log.append('on_nxt')
    return 'nxt-result'
{a_}def on_probe(self):
    log.append('on_probe')
    return 'probe-result'
"""
    for ph in BE_PHASES:
        ret = "True" if ph in ("g",) else "'" + ph + "'"
        if ph == phase and engine == "async-cancel":
            body = ("    gate['reached'] = True\n"
                    "    await gate['fut']\n")
        elif ph == phase:
            body = "    raise EXC('boom')\n"
        else:
            body = ""
        src += f"{a_}def {ph}(self):\n    log.append('{ph}')\n{body}    return {ret}\n"
    exec(src, {"log": log, "EXC": exc_cls, "gate": gate}, ns)   # noqa: S102 - generated source
    a = State(initial=True)
    b = State()
    c = State()
    body = {"a": a, "b": b, "c": c,
            "pre": a.to.itself(internal=True, on="on_pre"),
            "go": a.to(b, validators="v", cond="g"),
            "nxt": a.to(c) | b.to(c),
            "probe": a.to.itself(internal=True, on="on_probe") |
            b.to.itself(internal=True, on="on_probe") | c.to.itself(internal=True, on="on_probe")}
    body.update(ns)
    cls = StateMachineMetaclass("BE", (StateMachine,), body)
    want_state = "b" if phase in ("on_enter_b", "after_go") else "a"
    out = {}

    def verdict(sm, caught, probe_result):
        if not isinstance(caught, exc_cls):
            return (f"the {exc_name} raised in {phase} did not reach the caller: "
                    f"{'returned normally' if caught is None else repr(caught)}")
        if sm.current_state_value != want_state:
            return (f"state after {exc_name} in {phase} is {sm.current_state_value}, "
                    f"expected {want_state}")
        if "on_nxt" in log:
            return (f"the event queued behind the failed one ran later (log: "
                    f"{[x for x in log if isinstance(x, str)][-6:]})")
        if probe_result != "probe-result":
            return (f"the next event sent after the failure returned {probe_result!r} instead of "
                    f"its own result")
        if queue_len(sm):
            return f"{queue_len(sm)} event(s) left in the queue"
        return None

    if not asyn:
        sm = cls(rtc=(engine == "sync"))
        caught = None
        try:
            sm.send("pre")
        except BaseException as e:   # noqa: BLE001
            caught = e
        queue_left = queue_len(sm)
        try:
            pr = sm.send("probe")
        except BaseException as e:   # noqa: BLE001
            pr = e
        msg = verdict(sm, caught, pr)
        if msg is None and queue_left:
            msg = f"{queue_left} event(s) stayed queued after the failure"
        return msg

    async def main():
        sm = cls()
        await sm.activate_initial_state()
        caught = None
        if engine == "async-cancel":
            gate["fut"] = asyncio.get_running_loop().create_future()
            t = asyncio.ensure_future(sm.send("pre"))
            for _ in range(50):
                await asyncio.sleep(0)
                if gate.get("reached"):
                    break
            if not gate.get("reached"):
                return "harness: the suspending callback was never reached"
            t.cancel()
            try:
                await t
            except BaseException as e:   # noqa: BLE001
                caught = e
        else:
            try:
                await sm.send("pre")
            except BaseException as e:   # noqa: BLE001
                caught = e
        queue_left = queue_len(sm)
        try:
            pr = await sm.send("probe")
        except BaseException as e:   # noqa: BLE001
            pr = e
        msg = verdict(sm, caught, pr)
        if msg is None and queue_left:
            msg = f"{queue_left} event(s) stayed queued after the failure"
        return msg

    loop = asyncio.new_event_loop()
    try:
        return loop.run_until_complete(main())
    finally:
        loop.close()


def base_exception_cases():
    out = []
    for engine in BE_ENGINES:
        for phase in BE_PHASES:
            if engine == "async-cancel":
                out.append((engine, phase, "CancelledError"))
                continue
            for exc_name in _base_excs():
                if engine == "async" and exc_name in ("KeyboardInterrupt", "SystemExit"):
                    # asyncio itself re-raises these out of the event loop from whatever task
                    # they occur in: there is no "outermost caller" left to observe
                    continue
                out.append((engine, phase, exc_name))
    return out


def base_exceptions(res):
    for (engine, phase, exc_name) in base_exception_cases():
        res.stats["evaluations"] += 1
        res.hist["base-exception"] += 1
        try:
            with deadline(30):
                msg = base_exception_case(engine, phase, exc_name)
        except Hang:
            msg = "hung"
        if msg:
            res.violation({"category": "base-exception", "engine": engine, "exc": exc_name},
                          {"base_exception": [engine, phase, exc_name]},
                          f"[{engine}] {exc_name} (a BaseException that is not an Exception) in "
                          f"{phase} of a queued event: {msg}")


def worker(block):
    if block[0] == "base-exceptions":
        res = BlockResult()
        base_exceptions(res)
        res.stats["states"] += 1
        return res
    if block[0] == "property-faults":
        res = BlockResult()
        with deadline(300):
            property_faults(res)
        res.stats["states"] += 1
        return res
    tier, lo, hi = block
    res = BlockResult()
    for (guarded, rules, hist, vals) in base_scenarios(tier)[lo:hi]:
        alphabet = "abr" if guarded else "abc"
        for cfg in CFGS:
            if cfg.allow and not guarded:
                continue
            try:
                with deadline(30):
                    msg, p, outs = run_with(guarded, rules, hist, vals, cfg, {}, ())
            except Ambiguous:
                res.stats["ambiguous_skipped"] += 1
                continue
            except Hang:
                msg, outs = "fault-free run hung", []
            res.stats["evaluations"] += 1
            res.stats["states"] += 1
            if msg:
                res.violation({"category": "fault-free", "engine": cfg.engine},
                              sc_json(guarded, rules, hist, vals, cfg, {}, ()), msg)
                continue
            pos = positions(outs)
            res.stats["crash_points"] += len(pos)
            double = (tier == "thorough" and len(rules) <= 1) or not rules or guarded
            for k, (key, top_i, gkind) in enumerate(pos):
                fol = tuple(alphabet[(k + j) % 3] for j in range(3))
                faults = {key: k}
                _one(res, guarded, rules, hist, vals, cfg, faults, fol, gkind)
                if double and (k % (1 if tier == "thorough" else 3) == 0):
                    # second fault at every position of the first follow-up event
                    try:
                        m2, p2, o2 = run_with(guarded, rules, hist, vals, cfg, faults, fol[:1])
                    except Ambiguous:
                        continue
                    if m2 or not o2:
                        continue
                    for k2, (key2, _ti, gk2) in enumerate(positions(o2[-1:])):
                        f2 = {key: k, key2: k + k2 + 1}
                        _one(res, guarded, rules, hist, vals, cfg, f2, fol, gkind + "+" + gk2)
    return res


def _one(res, guarded, rules, hist, vals, cfg, faults, fol, label):
    res.stats["evaluations"] += 1
    try:
        with deadline(30):
            msg, p, outs = run_with(guarded, rules, hist, vals, cfg, faults, fol)
    except Ambiguous:
        res.stats["ambiguous_skipped"] += 1
        return
    except Hang:
        msg, p, outs = "faulted run hung (>30 s)", None, []
    res.stats["states"] += 1
    if p is not None:
        res.stats["transitions"] += p.steps
    nexc = sum(1 for o in outs if o.kind == "exc")
    res.hist[f"fault_in={label.split('+')[0]}"] += 1
    res.hist[f"exceptions_seen={nexc}"] += 1
    if msg:
        res.violation({"category": _cat(msg), "engine": cfg.engine, "rtc": cfg.rtc,
                       "group": label},
                      sc_json(guarded, rules, hist, vals, cfg, faults, fol), msg)
    elif len(res.samples) < 1 and rules and len(faults) == 1:
        res.samples.append(sc_json(guarded, rules, hist, vals, cfg, faults, fol))


def _cat(msg):
    pre = "follow-up:" if "follow-up" in msg else ""
    for key in ("nested send return", "result", "trace", "stored state", "exception",
                "outcome kind", "dirty", "phase discipline", "hung", "allowed_events",
                "current_state"):
        if key in msg:
            return pre + key
    return pre + "other"


def run(tier, seed):
    rep = Report(PID, tier, seed, level="fault_enumeration")
    n = len(base_scenarios(tier))
    step = 6 if tier == "quick" else 4
    blocks = [(tier, i, min(i + step, n)) for i in range(0, n, step)] + [("property-faults",),
                                                                      ("base-exceptions",)]
    total, capped = run_blocks(worker, blocks, seed=seed)
    rep.add_violations(total.violations, total.hist_sig)
    rep.harness_errors = total.stats.get("harness_errors", 0)
    rep.notes.extend(total.notes)
    rep.coverage = {
        "evaluations": total.stats["evaluations"],
        "distinct_nontrivial": total.stats["states"] - 0,
        "rule": "one evaluation = one complete execution (construct + history + follow-ups) with "
                "0, 1 or 2 injected faults, compared step by step with the reference; every "
                "callback invocation position of every base scenario is a crash point; "
                "distinct_nontrivial counts executions (each has a distinct (scenario, config, "
                "fault positions) triple)",
        "base_scenarios": n,
        "crash_points": total.stats["crash_points"],
        "operations_compared": total.stats["transitions"],
        "ambiguous_skipped": total.stats["ambiguous_skipped"],
        "configs": [list(c) for c in CFGS],
        "outcome_histogram": dict(total.hist),
        "samples": total.samples or [{"note": "no sample"}],
        "violations_total": total.stats.get("violations_total", 0),
    }
    rep.assumptions = ["reference fault semantics in mc/ref.py",
                       "the reference-driven fault enumeration injects Exception subclasses; "
                       "BaseException-only classes (application-defined, KeyboardInterrupt, "
                       "SystemExit, CancelledError incl. real task cancellation) are covered by the "
                       "base-exceptions sub-check at every phase of a queued event",
                       "siblings of a failing callback inside its group may or may not run"]
    return rep.finish(exhaustive=not capped)


def replay(sc):
    if "base_exception" in sc:
        return base_exception_case(*sc["base_exception"])
    if "property_fault" in sc:
        res = BlockResult()
        property_faults(res)
        for v in res.violations:
            if v["scenario"] == sc:
                return v["message"]
        return None
    cfg = Cfg(*sc["cfg"])
    rules = [((tuple(r[0]), r[1]), (tuple(r[2]), r[3]) + tuple(r[4:])) for r in sc["rules"]]
    faults = {(tuple(c), t, i): k for c, t, i, k in sc["faults"]}
    vals = sc["vals"]
    if vals:
        vals = {k: (tuple(v) if isinstance(v, list) else v) for k, v in vals.items()}
    msg, _, _ = run_with(sc["guarded"], rules, sc["history"], vals, cfg, faults, sc["followups"])
    return msg

"""C01 - transition selection follows the declared machine.

Space: focal state A with K candidate transitions (target x event list x guard config), fixed
`back` edges B->A, C->A; all guard/validator valuations re-drawn per step; six event names
(declared, prefix, extension, unknown); the eight configurations CFG8.  Product exploration:
every (state, event, valuation) edge on an installed state, plus every history up to length L
on a fresh instance.  Oracle: reference selector (mc/ref.py).
"""

import itertools

from ..drive import CFG8, Pair, compare, leak, typed_vals
from ..env import VETO, ValidatorError, Veto
from ..par import BlockResult, deadline, run_blocks, Hang
from ..report import Report
from ..spec import M, S, T, build

PID = "C01"

TARGETS_FULL = (("B", False), ("C", False), ("A", False), ("A", True))
TARGETS_RED = (("B", False), ("C", False), ("A", True))
EVENTS_FULL = (("go",), ("go_back",), ("go", "go_back"), ("go_back", "go"))
EVENTS_RED = (("go",), ("go", "go_back"))
# guard configs: (cond, unless, validators)
GUARDS_FULL = (
    ((), (), ()),
    (("g1",), (), ()),
    ((), ("g1",), ()),
    (("g1", "g2"), (), ()),
    ((), ("g1", "g2"), ()),
    (("g1",), ("g2",), ()),
    ((), (), ("v1",)),
    (("g1",), (), ("v1",)),
    (("g1 and not g2",), (), ()),
)
GUARDS_RED = (((), (), ()), (("g1",), (), ()), ((), ("g2",), ()), ((), (), ("v1",)))
SENT_EVENTS = ("go", "go_back", "back", "g", "go_", "nope", "toB")


def cands(full):
    tg, ev, gd = (TARGETS_FULL, EVENTS_FULL, GUARDS_FULL) if full else \
        (TARGETS_RED, EVENTS_RED, GUARDS_RED)
    return [(t, e, g) for t in tg for e in ev for g in gd]


def machines(tier):
    """Deterministic list of (label, candidate tuple)."""
    out = [("K0", ())]
    full = cands(True)
    red = cands(False)
    out += [("K1F", (c,)) for c in full]
    if tier == "quick":
        out += [("K2R", cs) for cs in itertools.product(red, repeat=2)]
    else:
        out += [("K2F", cs) for cs in itertools.product(full, repeat=2)]
        out += [("K3R", cs) for cs in itertools.product(red, repeat=3)]
    return out


def mk_machine(cs, asyn):
    trans = []
    names = set()
    expr_names = set()
    for ((dst, internal), evs, (cond, unless, vals)) in cs:
        trans.append(T("A", dst, evs, internal=internal, cond=cond, unless=unless, validators=vals))
        for e in cond + unless:
            if " " in e:
                expr_names.update(n for n in ("g1", "g2") if n in e)
            else:
                names.add(e)
        names.update(vals)
    names |= expr_names
    trans.append(T("A", "B", ("toB",)))
    trans.append(T("A", "C", ("toC",)))
    trans.append(T("B", "A", ("back",)))
    trans.append(T("C", "A", ("back",)))
    prov = []
    for n in sorted(names):
        # coroutine guards inside boolean expressions are the subject of C05/C08 (known finding);
        # here names used inside an expression stay plain functions.
        fl = "a" if (asyn == "all" and n not in expr_names) else ""
        prov.append(("sm", n, fl))
    prov.append(("sm", "after_transition", "a" if asyn else ""))
    m = M(states=(S("A", initial=True), S("B"), S("C")), trans=tuple(trans), provided=tuple(prov))
    return m, sorted(names)


def valuations(names):
    for bits in itertools.product((True, False), repeat=len(names)):
        yield dict(zip(names, bits))


def edges_from(state, names):
    """(event, valuation) edges explored from a state."""
    for ev in SENT_EVENTS:
        if state == "A" and ev in ("go", "go_back") and names:
            for v in valuations(names):
                yield ev, v
        else:
            yield ev, {n: True for n in names}


def scenario_json(m, cfg, ops):
    return {"machine": m.to_json(), "cfg": list(cfg), "ops": ops}


def explore_machine(res, label, cs, tier, hist_len):
    # coroutine masks: none (sync engine), all callbacks, only the action (guards/validators
    # stay plain functions on the async engine)
    for asyn in (False, "all", "act"):
        m, names = mk_machine(cs, asyn)
        if asyn == "act" and not names:
            continue
        built = build(m)
        for cfg in CFG8():
            if (cfg.engine == "async") != bool(asyn):
                continue
            # ---- product edges on installed states (one long-lived instance) ----
            p = Pair(built, cfg)
            r = p.construct()
            ops = [["new", None]]
            if r is None and cfg.engine == "async":
                r = p.activate()
                ops.append(["activate"])
            if r:
                res.violation({"category": "construct"}, scenario_json(m, cfg, ops), r)
                continue
            salt = 0
            nodes = set()
            for st in ("A", "B", "C"):
                for ev, v in edges_from(st, names):
                    salt += 1
                    tv = typed_vals(v, salt)
                    r = p.install(st)
                    if r is None:
                        nodes.add((st, 0, False))
                        r = p.send(ev, tv, tag=f"e{salt}")
                        if r is None:
                            r = p.check_views()
                    res.stats["transitions"] += 1
                    e = p.last[0] if r is None else None
                    if e is not None:
                        res.hist[_classify(e, p)] += 1
                    if r:
                        res.violation(
                            {"category": _cat(r), "engine": cfg.engine},
                            scenario_json(m, cfg, [["new", None], ["activate"] if asyn else None,
                                                   ["install", st], ["send", ev, _j(tv), f"e{salt}"]]),
                            r)
                        # rebuild a clean instance and continue
                        p = Pair(built, cfg)
                        p.construct()
                        if asyn:
                            p.activate()
            res.stats["states"] += len(nodes)
            res.stats["traces"] += 1
            if "v1" in names:
                veto_edges(res, built, cfg, m, names, asyn)
            # ---- all histories up to hist_len on fresh instances ----
            if hist_len and len(cs) <= 1:
                steps = [(ev, v) for ev in ("go", "go_back", "back", "nope")
                         for v in (valuations(names) if ev in ("go", "go_back") and names
                                   else [{n: True for n in names}])]
                for L in range(2, hist_len + 1):
                    for hist in itertools.product(steps, repeat=L):
                        p = Pair(built, cfg)
                        r = p.construct()
                        ops = [["new", None]]
                        i = 0
                        for (ev, v) in hist:
                            if r:
                                break
                            i += 1
                            tv = typed_vals(v, i)
                            ops.append(["send", ev, _j(tv), f"h{i}"])
                            r = p.send(ev, tv, tag=f"h{i}")
                            if r is None:
                                r = p.check_views()
                            res.stats["transitions"] += 1
                        res.stats["traces"] += 1
                        res.stats["histories"] += 1
                        if r:
                            res.violation({"category": _cat(r), "engine": cfg.engine},
                                          scenario_json(m, cfg, ops), r)
    res.stats["machines"] += 1


def veto_edges(res, built, cfg, m, names, asyn):
    """The validator aborts with an application-defined exception that is not an `Exception`
    (a BaseException subclass): 'a validator that raises aborts the whole event with that
    exception' all the same - the exception reaches the caller, no later candidate is tried, the
    state is unchanged, and the next event is processed normally."""
    from ..ref import Outcome
    others = [n for n in names if n != "v1"]
    salt = 0
    for ev in ("go", "go_back"):
        for v in valuations(others):
            salt += 1
            p = Pair(built, cfg)
            r = p.construct()
            if r is None and cfg.engine == "async":
                r = p.activate()
            ops = [["new", None], ["activate"] if asyn else None]
            if r is None:
                tv = typed_vals(v, salt)
                e = p.ref.send(ev, dict(tv, v1=False), tag="veto")
                try:
                    o = p.impl.send(ev, dict(tv, v1=VETO), tag="veto")
                except Veto as ex:
                    o = Outcome("exc", ValidatorError(*ex.args), p.impl._obs())
                r = compare(e, o, p.ref, p.impl) or leak(p.impl.sm, 0)
                ops.append(["veto-send", ev, _j(tv)])
                if r is None:
                    r = p.send("toB", {n: True for n in names}, tag="next") or p.check_views()
                    ops.append(["send", "toB", {n: True for n in names}, "next"])
            res.stats["transitions"] += 2
            res.hist["validator-veto-baseexception"] += 1
            if r:
                res.violation({"category": "veto:" + _cat(r), "engine": cfg.engine},
                              scenario_json(m, cfg, ops), r)


def _j(tv):
    return {k: v for k, v in tv.items()}


def _cat(msg):
    for key in ("allowed_events", "stored state", "exception", "outcome kind", "result", "trace",
                "phase discipline", "dirty", "current_state"):
        if key in msg:
            return key
    return "other"


def _classify(e, p):
    if e.kind == "exc":
        n = type(e.value).__name__
        return {"RefTNA": "not-allowed", "ValidatorError": "validator-abort"}.get(n, n)
    fired = [g for g in e.groups if g.kind == "after"]
    if not fired:
        return "tolerated-no-transition"
    return f"fired-candidate-{fired[0].tidx}"


def worker(block):
    tier, lo, hi, hist_len = block
    ms = machines(tier)
    res = BlockResult()
    for (label, cs) in ms[lo:hi]:
        try:
            with deadline(60):
                explore_machine(res, label, cs, tier, hist_len)
        except Hang:
            m, _ = mk_machine(cs, False)
            res.violation({"category": "hang"}, {"machine": m.to_json()}, "exploration hung (>60 s)")
    if lo == 0:
        m, names = mk_machine(ms[min(40, len(ms) - 1)][1], False)
        res.samples.append({"machine": m.to_json(), "edge": ["install A", "send go",
                                                             {n: True for n in names}]})
    return res


def run(tier, seed):
    rep = Report(PID, tier, seed)
    ms = machines(tier)
    hist_len = 2 if tier == "quick" else 3
    step = 8 if tier == "quick" else 32
    blocks = [(tier, i, min(i + step, len(ms)), hist_len) for i in range(0, len(ms), step)]
    total, capped = run_blocks(worker, blocks, seed=seed)
    rep.add_violations(total.violations, total.hist_sig)
    rep.harness_errors = total.stats.get("harness_errors", 0)
    rep.notes.extend(total.notes)
    rep.coverage = {
        "states": total.stats["states"],
        "transitions": total.stats["transitions"],
        "traces_validated_against_impl": total.stats["traces"],
        "machines": total.stats["machines"],
        "histories_fresh_instance": total.stats["histories"],
        "configs": [list(c) for c in CFG8()],
        "bounds": {"K": "<=1 full alphabet, 2 reduced" if tier == "quick"
                   else "<=2 full alphabet, 3 reduced", "history_len": hist_len,
                   "events_sent": list(SENT_EVENTS)},
        "outcome_histogram": dict(total.hist),
        "samples": total.samples or [{"note": "see bounds"}],
        "rule": "states = (machine, cfg, installed state) nodes; transitions = (event, valuation) "
                "edges executed on the real library and compared with the reference selector",
        "violations_total": total.stats.get("violations_total", 0),
    }
    rep.assumptions = ["reference selector mc/ref.py", "guard/validator shims are pure",
                       "bounded to the candidate alphabets listed in DESIGN.md C01"]
    return rep.finish(exhaustive=not capped)


def replay(sc):
    from ..ref import Cfg
    m = M.from_json(sc["machine"])
    built = build(m)
    cfg = Cfg(*sc["cfg"])
    p = None
    for op in sc["ops"]:
        if op is None:
            continue
        if op[0] == "new":
            p = Pair(built, cfg, stored=op[1])
            r = p.construct()
        elif op[0] == "activate":
            r = p.activate()
        elif op[0] == "install":
            r = p.install(op[1])
        elif op[0] == "send":
            r = p.send(op[1], op[2], tag=op[3])
            if r is None:
                r = p.check_views()
        elif op[0] == "veto-send":
            from ..ref import Outcome
            e = p.ref.send(op[1], dict(op[2], v1=False), tag="veto")
            try:
                o = p.impl.send(op[1], dict(op[2], v1=VETO), tag="veto")
            except Veto as ex:
                o = Outcome("exc", ValidatorError(*ex.args), p.impl._obs())
            r = compare(e, o, p.ref, p.impl) or leak(p.impl.sm, 0)
        if r:
            return r
    return None

"""C08 - guards: cond/unless conjunction and Python-faithful boolean expressions.

Expression trees (<= 2 binary operators quick / <= 3 thorough) over and/or, the six comparisons
incl. chains, `not` nesting <= 2, atoms from plain names, *confusable* names (vx, a_v_b, nota,
orc, andy, v1) and literals (True, False, None, 0, 1, 's', 'v', ''), rendered with every operator
spelling per node (not/!, and/^, or/v), minimal vs full parentheses, spaced vs compact
whitespace.  Seam (a): statemachine.spec_parser.parse_boolean_expr with a recording variable
hook, for every rendering x valuation.  Seam (b): a real machine with cond=/unless= entries whose
names are provided as methods, attributes, properties, model/listener attributes or by two
providers, fired with send().  Negative space: every single-token deletion / duplication /
replacement of the small renderings, unknown names, empty strings, non-grammar Python.
Oracle: Python's own evaluator on the generator's token list translated token by token (no regex
on the string) in a recording namespace: same truthiness (or same exception type) and the same
sequence of names read.  Invalid expressions: InvalidDefinition at instantiation, class statement
fine, never at send().
"""

import ast
import itertools

from ..par import BlockResult, Hang, deadline, run_blocks
from ..report import Report

PID = "C08"
CMP = ("==", "!=", "<", "<=", ">", ">=")
SPELL = {"not": ("not", "!"), "and": ("and", "^"), "or": ("or", "v")}
CONFUSE = ({"a": "vx", "b": "nota", "c": "orc"}, {"a": "a_v_b", "b": "andy", "c": "v1"})
ESC_LIT = "'q\\' v ^ !'"        # the Python literal 'q\' v ^ !' (escaped quote, then operator spellings)
ESC_VAL = "q' v ^ !"
LITS = ("True", "False", "None", "0", "1", "'s'", "'v'", "''", ESC_LIT)
BOOL_VALUES = (True, False, 0, 1, 2, "", "s", None, [], [0])
CMP_VALUES = (0, 1, 2)

# -- trees ------------------------------------------------------------------------------------
# ("atom", x) | ("not", t) | ("and", l, r) | ("or", l, r) | ("cmp", (a0, a1[, a2]), (op1[, op2]))


def atom(x):
    return ("atom", x)


def bool_shapes(max_ops):
    A, B, C, D = atom("a"), atom("b"), atom("c"), atom("a")
    out = [A, ("not", A), ("not", ("not", A))]
    ops = ("and", "or")
    for o in ops:
        out += [(o, A, B), (o, ("not", A), B), (o, A, ("not", B)), ("not", (o, A, B)),
                (o, ("not", ("not", A)), B)]
    if max_ops >= 2:
        for o1, o2 in itertools.product(ops, repeat=2):
            out += [(o2, (o1, A, B), C), (o1, A, (o2, B, C)),
                    (o2, (o1, ("not", A), B), C), (o1, A, (o2, ("not", B), C)),
                    (o1, A, ("not", (o2, B, C))), ("not", (o2, (o1, A, B), C)),
                    (o2, ("not", (o1, A, B)), C)]
    if max_ops >= 3:
        for o1, o2, o3 in itertools.product(ops, repeat=3):
            out += [(o3, (o2, (o1, A, B), C), D), (o1, A, (o2, B, (o3, C, D))),
                    (o2, (o1, A, B), (o3, C, D)), (o1, A, (o3, (o2, B, C), D)),
                    (o2, (o1, A, ("not", B)), (o3, ("not", C), D))]
    return out


def cmp_shapes(max_ops):
    A, B, C = atom("a"), atom("b"), atom("c")
    out = []
    for op in CMP:
        out.append(("cmp", (A, B), (op,)))
        out.append(("cmp", (A, atom("1")), (op,)))
        out.append(("cmp", (atom("1"), A), (op,)))
        out.append(("not", ("cmp", (A, B), (op,))))
    if max_ops >= 2:
        for o1, o2 in itertools.product(CMP, repeat=2):
            out.append(("cmp", (A, B, C), (o1, o2)))
        for op in CMP:
            for bo in ("and", "or"):
                out.append((bo, ("cmp", (A, B), (op,)), C))
                out.append((bo, C, ("cmp", (A, B), (op,))))
                out.append((bo, ("cmp", (A, B), (op,)), ("cmp", (B, C), (op,))))
    if max_ops >= 3:
        for o1, o2 in itertools.product(("<", "<=", "=="), repeat=2):
            for bo in ("and", "or"):
                out.append((bo, ("cmp", (A, B, C), (o1, o2)), A))
                out.append((bo, ("not", A), ("cmp", (A, B, C), (o1, o2))))
    return out


def substitute(t, mapping):
    if t[0] == "atom":
        return ("atom", mapping.get(t[1], t[1]))
    if t[0] == "not":
        return ("not", substitute(t[1], mapping))
    if t[0] == "cmp":
        return ("cmp", tuple(substitute(x, mapping) for x in t[1]), t[2])
    return (t[0], substitute(t[1], mapping), substitute(t[2], mapping))


def names_of(t, acc=None):
    acc = [] if acc is None else acc
    if t[0] == "atom":
        if t[1] not in LITS and not t[1].isdigit() and t[1] not in acc:
            acc.append(t[1])
    elif t[0] == "not":
        names_of(t[1], acc)
    elif t[0] == "cmp":
        for x in t[1]:
            names_of(x, acc)
    else:
        names_of(t[1], acc)
        names_of(t[2], acc)
    return acc


PREC = {"or": 1, "and": 2, "not": 3, "cmp": 4, "atom": 5}


def tokens(t, spelling, full, parent=0, idx=None):
    """spelling: iterator of 0/1 choices consumed per operator node (pre-order)."""
    k = t[0]
    if k == "atom":
        return [t[1]]
    if k == "not":
        sp = SPELL["not"][next(spelling)]
        inner = tokens(t[1], spelling, full, PREC["not"])
        body = [sp] + inner
    elif k == "cmp":
        body = tokens(t[1][0], spelling, full, PREC["cmp"] + 1)
        for op, x in zip(t[2], t[1][1:]):
            body += [op] + tokens(x, spelling, full, PREC["cmp"] + 1)
    else:
        sp = SPELL[k][next(spelling)]
        # left-assoc: the right operand of the same operator needs parentheses
        body = tokens(t[1], spelling, full, PREC[k]) + [sp] + tokens(t[2], spelling, full,
                                                                        PREC[k] + 1)
    need = PREC[k] < parent or (full and parent > 0)
    return (["("] + body + [")"]) if need else body


def n_ops(t):
    if t[0] == "atom":
        return 0
    if t[0] == "not":
        return 1 + n_ops(t[1])
    if t[0] == "cmp":
        return 0
    return 1 + n_ops(t[1]) + n_ops(t[2])


def is_word(tok):
    return tok[0].isalnum() or tok[0] == "_" or tok[0] == "'"


def join(toks, compact):
    if not compact:
        return " ".join(toks)
    out = toks[0]
    for prev, cur in zip(toks, toks[1:]):
        wordy = (prev[-1].isalnum() or prev[-1] == "_") and (cur[0].isalnum() or cur[0] == "_")
        out += (" " if wordy else "") + cur
    return out


PY = {"!": "not", "^": "and", "v": "or"}


def to_python(toks, opmask):
    """Token-wise translation; opmask[i] tells whether token i is an operator token (so a *name*
    spelled `v` would not be translated - names never are `v` here)."""
    return " ".join(PY.get(t, t) if opmask[i] else t for i, t in enumerate(toks))


def renderings(t):
    """Yields (expr_string, python_string, tokens) for every spelling/paren/whitespace choice."""
    n = n_ops(t)
    seen = set()
    for sp in itertools.product((0, 1), repeat=n):
        for full in (False, True):
            toks = tokens(t, iter(sp), full)
            opmask = _opmask(t, iter(sp), full)
            py = to_python(toks, opmask)
            for compact in (False, True):
                s = join(toks, compact)
                if s in seen:
                    continue
                seen.add(s)
                yield s, py, toks, opmask


def _opmask(t, spelling, full, parent=0):
    k = t[0]
    if k == "atom":
        return [False]
    if k == "not":
        next(spelling)
        body = [True] + _opmask(t[1], spelling, full, PREC["not"])
    elif k == "cmp":
        body = _opmask(t[1][0], spelling, full, PREC["cmp"] + 1)
        for _op, x in zip(t[2], t[1][1:]):
            body += [False] + _opmask(x, spelling, full, PREC["cmp"] + 1)
    else:
        next(spelling)
        body = _opmask(t[1], spelling, full, PREC[k]) + [True] + _opmask(t[2], spelling, full,
                                                                           PREC[k] + 1)
    need = PREC[k] < parent or (full and parent > 0)
    return ([False] + body + [False]) if need else body


# -- oracle -------------------------------------------------------------------------------------

class RecNS(dict):
    def __init__(self, vals):
        super().__init__()
        self.vals = vals
        self.reads = []

    def __getitem__(self, k):
        if k in self.vals:
            self.reads.append(k)
            return self.vals[k]
        raise KeyError(k)


def py_eval(code, vals):
    ns = RecNS(vals)
    try:
        v = eval(code, {"__builtins__": {}}, ns)   # noqa: S307 - generated expression
        return ("ok", bool(v)), ns.reads
    except Exception as e:   # noqa: BLE001
        return ("exc", type(e).__name__), ns.reads


def has_chain(t):
    if t[0] == "cmp":
        return len(t[2]) > 1
    if t[0] == "atom":
        return False
    return any(has_chain(x) for x in t[1:] if isinstance(x, tuple))


def collapse(reads):
    out = []
    for r in reads:
        if not out or out[-1] != r:
            out.append(r)
    return out


def chain_middles(t, acc=None):
    acc = set() if acc is None else acc
    if t[0] == "cmp":
        for x in t[1][1:-1]:
            if x[0] == "atom":
                acc.add(x[1])
    elif t[0] == "not":
        chain_middles(t[1], acc)
    elif t[0] != "atom":
        chain_middles(t[1], acc)
        chain_middles(t[2], acc)
    return acc


def only_extra_middle_reads(exp_reads, got_reads, middles):
    """got_reads equals exp_reads except that a chain's middle operand is read once more right
    after it was read."""
    i = j = 0
    extra = 0
    while j < len(got_reads):
        if i < len(exp_reads) and got_reads[j] == exp_reads[i]:
            i += 1
            j += 1
        elif j > 0 and got_reads[j] == got_reads[j - 1] and got_reads[j] in middles:
            j += 1
            extra += 1
        else:
            return False
    return i == len(exp_reads) and extra > 0


def classify(t, expr, exp, got, exp_reads, got_reads):
    """Root-cause category of a disagreement (for known-finding matching)."""
    if any(q in expr for q in ("'v'", "'^'", "'!'", "\\'")):
        return "operator-rewrite-inside-string-literal"
    if has_chain(t) and exp == got and only_extra_middle_reads(exp_reads, got_reads,
                                                               chain_middles(t)):
        return "chained-comparison-middle-operand-read-twice"
    if exp != got:
        return "value"
    return "read-order"


# -- seam (a) -------------------------------------------------------------------------------------

def _has_atom(t, lit):
    if t[0] == "atom":
        return t[1] == lit
    if t[0] == "cmp":
        return any(_has_atom(x, lit) for x in t[1])
    return any(_has_atom(x, lit) for x in t[1:] if isinstance(x, tuple))


def valuations(names, t):
    if not names:
        return [{}]
    cmp_names = set()

    def walk(x):
        if x[0] == "cmp":
            for y in x[1]:
                if y[0] == "atom":
                    cmp_names.add(y[1])
        elif x[0] == "not":
            walk(x[1])
        elif x[0] != "atom":
            walk(x[1])
            walk(x[2])
    walk(t)
    doms = []
    esc = (ESC_VAL,) if _has_atom(t, ESC_LIT) else ()
    for nm in names:
        if nm in cmp_names:
            doms.append(CMP_VALUES + (("s",) if len(names) <= 2 else ()) + esc)
        elif len(names) <= 2:
            doms.append(BOOL_VALUES)
        else:
            doms.append((True, 0, "s", None, [0], ""))
    return [dict(zip(names, v)) for v in itertools.product(*doms)]


def seam_a(res, t):
    try:
        from statemachine.spec_parser import operator_mapping, parse_boolean_expr
    except ImportError:
        # the parser seam moved: no opinion here, the end-to-end seam (b) still decides
        res.stats["seam_a_unavailable"] = 1
        return
    names = names_of(t)
    vals_list = valuations(names, t)
    for expr, py, toks, opmask in renderings(t):
        res.stats["renderings"] += 1
        cur = {}
        reads = []

        def hook(name, cur=cur, reads=reads):
            def getter(*a, **k):
                reads.append(name)
                return cur["v"][name]
            getter.__name__ = name
            getter.unique_key = name
            return getter
        try:
            fn = parse_boolean_expr(expr, hook, operator_mapping)
        except Exception as e:   # noqa: BLE001
            res.stats["evaluations"] += 1
            res.violation({"category": "valid-expression-rejected", "compact": " " not in expr},
                          {"seam": "a", "tree": t, "expr": expr},
                          f"valid expression {expr!r} (python: {py!r}) rejected by the parser: "
                          f"{type(e).__name__}: {e}")
            continue
        for vals in vals_list:
            cur["v"] = vals
            del reads[:]
            try:
                got = ("ok", bool(fn()))
            except Exception as e:   # noqa: BLE001
                got = ("exc", type(e).__name__)
            got_reads = list(reads)
            exp, exp_reads = py_eval(py, vals)
            res.stats["evaluations"] += 1
            if exp != got or exp_reads != got_reads:
                cat = classify(t, expr, exp, got, exp_reads, got_reads)
                res.violation({"category": cat},
                              {"seam": "a", "tree": t, "expr": expr, "vals": vals},
                              f"{expr!r} (python: {py!r}) with {vals}: expected {exp} reading "
                              f"{exp_reads}, library gave {got} reading {got_reads}")
            else:
                res.hist[exp[0] + ":" + str(exp[1])] += 1


# -- seam (b): real machines -----------------------------------------------------------------------

PROVIDERS = ("method", "attribute", "property", "model-attribute", "listener-attribute",
             "machine+listener", "async-method", "attribute-none", "model-attribute-none",
             "listener-attribute-none", "machine+listener-attribute-none")


def build_machine(entries, names, provider, unless_entries=(), any_style=False):
    """entries: cond entries (strings).  Returns (cls, model_cls, listener_cls, reads, holder)."""
    from statemachine import State, StateMachine
    from statemachine.factory import StateMachineMetaclass
    reads = []
    holder = {"vals": {}}
    sa, sb = State(initial=True), State()
    ns = {"st_a": sa, "st_b": sb}
    if any_style:
        # the guarded transition is declared with from_.any(): the guards are copied onto the
        # expanded per-state transitions
        ns["go"] = sb.from_.any(cond=list(entries) or None, unless=list(unless_entries) or None)
        ns["back"] = sb.to(sa)
    else:
        ns["go"] = sa.to(sb, cond=list(entries) or None, unless=list(unless_entries) or None)
        ns["back"] = sb.to(sa)
    holder["vals"] = {nm: ((True, True) if provider == "machine+listener" else True)
                      for nm in names}
    mod_ns = {"state": None}
    lis_ns = {}

    def getter(nm, who):
        def g(self):
            reads.append((who, nm))
            v = holder["vals"][nm]
            return v[0] if (isinstance(v, tuple) and who == "machine") else \
                v[1] if isinstance(v, tuple) else v
        g.__name__ = nm
        g.__qualname__ = f"G8_{who}_{provider}.{nm}"
        return g
    def agetter(nm, who):
        async def g(self):
            reads.append((who, nm))
            return holder["vals"][nm]
        g.__name__ = nm
        g.__qualname__ = f"G8A_{who}.{nm}"
        return g
    for nm in names:
        if provider == "async-method":
            ns[nm] = agetter(nm, "machine")
        elif provider == "method":
            ns[nm] = getter(nm, "machine")
        elif provider in ("attribute",):
            ns[nm] = "UNSET"           # overwritten per valuation on the instance
        elif provider == "attribute-none":
            ns[nm] = None              # exactly None when the machine is instantiated
        elif provider == "model-attribute-none":
            mod_ns[nm] = None
        elif provider == "listener-attribute-none":
            lis_ns[nm] = None
        elif provider == "machine+listener-attribute-none":
            ns[nm] = getter(nm, "machine")
            lis_ns[nm] = None
        elif provider == "property":
            ns[nm] = property(getter(nm, "machine"))
        elif provider == "model-attribute":
            mod_ns[nm] = property(getter(nm, "model"))
        elif provider == "listener-attribute":
            lis_ns[nm] = property(getter(nm, "listener"))
        elif provider == "machine+listener":
            ns[nm] = getter(nm, "machine")
            lis_ns[nm] = getter(nm, "listener")
    cls = StateMachineMetaclass("M8", (StateMachine,), ns)
    return cls, type("Mod8", (), mod_ns), type("Lis8", (), lis_ns), reads, holder


def instantiate(cls, Mod, Lis):
    return cls(Mod(), listeners=[Lis()])


PLAIN_ATTR = {"attribute": "machine", "attribute-none": "machine",
              "model-attribute-none": "model", "listener-attribute-none": "listener"}


def seam_b_valid(res, t, provider):
    names = names_of(t)
    if not names:
        return
    if provider == "async-method" and t[0] != "atom":
        return      # coroutine operands inside an expression: C05's known finding
    from statemachine.exceptions import InvalidDefinition
    for (expr, py, toks, opmask) in renderings(t):
        for polarity in ("cond", "unless"):
            try:
                cls, Mod, Lis, reads, holder = build_machine(
                    [expr] if polarity == "cond" else [], names, provider,
                    [expr] if polarity == "unless" else [])
                mod_o, lis_o = Mod(), Lis()
                sm = cls(mod_o, listeners=[lis_o])
                target = {"machine": sm, "model": mod_o, "listener": lis_o}
            except InvalidDefinition as e:
                res.stats["evaluations"] += 1
                res.violation({"category": "valid-expression-rejected", "compact": " " not in expr,
                               "seam": "b"},
                              {"seam": "b", "tree": t, "expr": expr, "provider": provider},
                              f"[{provider}] {polarity}={expr!r} rejected at instantiation: {e}")
                continue
            except Exception as e:   # noqa: BLE001
                res.stats["evaluations"] += 1
                res.violation({"category": "valid-expression-crash", "seam": "b"},
                              {"seam": "b", "tree": t, "expr": expr, "provider": provider},
                              f"[{provider}] {polarity}={expr!r}: {type(e).__name__}: {e}")
                continue
            for vals in valuations(names, t)[:: (1 if len(names) < 2 else 3)]:
                if provider == "machine+listener-attribute-none":
                    _two_providers_attr(res, sm, lis_o, t, expr, py, polarity, vals, holder, reads)
                    continue
                if provider == "machine+listener":
                    # conjunction over the providers: machine value first, listener second
                    pairs = [dict(zip(names, combo)) for combo in
                             [tuple((vals[n], True) for n in names),
                              tuple((True, vals[n]) for n in names),
                              tuple((vals[n], vals[n]) for n in names)]]
                else:
                    pairs = [vals]
                for pv in pairs:
                    holder["vals"] = pv
                    if provider in PLAIN_ATTR:
                        for n in names:
                            object.__setattr__(target[PLAIN_ATTR[provider]], n, pv[n])
                    del reads[:]
                    sm.current_state_value = "st_a"
                    try:
                        sm.send("go")
                        fired = ("ok", sm.current_state_value == "st_b")
                    except sm.TransitionNotAllowed:
                        fired = ("ok", False)
                    except Exception as e:   # noqa: BLE001
                        fired = ("exc", type(e).__name__)
                    got_reads = [n for (_w, n) in reads]
                    # oracle
                    if provider == "machine+listener" and t[0] == "atom":
                        # a plain name: every provider is its own guard entry (C12): cond needs
                        # all truthy, unless needs all falsy; evaluation stops at the first
                        # provider that disables the transition
                        m_, l_ = pv[t[1]]
                        want = polarity == "cond"
                        exp_reads = [t[1]]
                        ok = bool(m_) == want
                        if ok:
                            exp_reads.append(t[1])
                            ok = bool(l_) == want
                        exp = ("ok", ok)
                        res.stats["evaluations"] += 1
                        if exp != fired or exp_reads != got_reads:
                            res.violation({"category": "plain-name-two-providers", "seam": "b"},
                                          {"seam": "b", "tree": t, "expr": expr, "vals": repr(pv),
                                           "provider": provider, "polarity": polarity},
                                          f"[{provider}] {polarity}={expr!r} with {pv}: expected "
                                          f"fires={exp} reading {exp_reads}, observed "
                                          f"fires={fired} reading {got_reads}")
                        else:
                            res.hist[f"e2e-{polarity}:{exp[1]}"] += 1
                        continue
                    if provider == "machine+listener":
                        seq = []

                        def conj_vals(pv=pv, seq=seq):
                            class NS(dict):
                                def __getitem__(self, k):
                                    if k not in pv:
                                        raise KeyError(k)
                                    m, l_ = pv[k]
                                    seq.append(k)
                                    if not m:
                                        return m
                                    seq.append(k)
                                    return l_
                            return NS()
                        try:
                            v = eval(py, {"__builtins__": {}}, conj_vals())   # noqa: S307
                            exp = ("ok", bool(v))
                        except Exception as e:   # noqa: BLE001
                            exp = ("exc", type(e).__name__)
                        exp_reads = list(seq)
                    else:
                        exp, exp_reads = py_eval(py, pv)
                    if polarity == "unless" and exp[0] == "ok":
                        exp = ("ok", not exp[1])
                    res.stats["evaluations"] += 1
                    if provider in PLAIN_ATTR:
                        got_reads = exp_reads      # plain attributes cannot record reads
                    if exp != fired or exp_reads != got_reads:
                        cat = classify(t, expr, exp, fired, exp_reads, got_reads)
                        res.violation({"category": cat, "seam": "b", "provider": provider},
                                      {"seam": "b", "tree": t, "expr": expr, "vals": repr(pv),
                                       "provider": provider, "polarity": polarity},
                                      f"[{provider}] {polarity}={expr!r} with {pv}: expected "
                                      f"fires={exp} reading {exp_reads}, observed fires={fired} "
                                      f"reading {got_reads}")
                    else:
                        res.hist[f"e2e-{polarity}:{exp[1]}"] += 1


def _two_providers_attr(res, sm, lis_o, t, expr, py, polarity, vals, holder, reads):
    """The machine provides every name as a (recording) method, the listener as a plain
    attribute that was exactly None when it was attached.  Machine values stay permissive, the
    listener's attribute takes the valuation: the outcome must follow the listener's values."""
    names = names_of(t)
    want_true = polarity == "cond"
    if t[0] != "atom":
        return       # expressions over two providers: covered by "machine+listener"
    nm = t[1]
    for mval in (True, False):
        holder["vals"] = {n: mval for n in names}
        object.__setattr__(lis_o, nm, vals[nm])
        del reads[:]
        sm.current_state_value = "st_a"
        try:
            sm.send("go")
            fired = sm.current_state_value == "st_b"
        except sm.TransitionNotAllowed:
            fired = False
        exp = (bool(mval) == want_true) and (bool(vals[nm]) == want_true)
        res.stats["evaluations"] += 1
        if fired != exp:
            res.violation({"category": "plain-name-two-providers", "seam": "b",
                           "provider": "machine+listener-attribute-none"},
                          {"seam": "b", "tree": t, "expr": expr, "vals": repr(vals),
                           "provider": "machine+listener-attribute-none", "polarity": polarity},
                          f"[machine method + listener attribute that was None when attached] "
                          f"{polarity}={expr!r}: machine says {mval!r}, listener attribute is "
                          f"{vals[nm]!r}: expected fires={exp}, observed fires={fired}")
        else:
            res.hist[f"e2e-{polarity}:{exp}"] += 1


# -- cond/unless lists (conjunction of entries) ------------------------------------------------

def seam_b_lists(res):
    combos = []
    for ce in (("a",), ("a", "b"), ("a and b",), ("a", "not b")):
        for ue in ((), ("c",), ("c", "a"), ("c or b",)):
            combos.append((ce, ue))
    # several *different* expressions on one transition, including pairs that differ only in
    # parenthesisation or in the type of a literal
    combos += [(("a and (b or c)", "(a and b) or c"), ()),
               (("a or b and c", "(a or b) and c"), ()),
               (("not (a and b)", "not a and b"), ("c",)),
               (("a == 1", "a == '1'"), ()),
               (("a and b",), ("a and (b)",)),
               (("a or b",), ("b or a", "a and b"))]
    for provider in ("method", "property", "model-attribute", "method/from_.any"):
        for (ce, ue) in combos:
            names = ["a", "b", "c"]
            cls, Mod, Lis, reads, holder = build_machine(ce, names, provider.split("/")[0], ue,
                                                         any_style=provider.endswith("any"))
            try:
                sm = instantiate(cls, Mod, Lis)
            except Exception as e:   # noqa: BLE001
                res.stats["evaluations"] += 1
                res.violation({"category": "valid-expression-list-rejected"},
                              {"lists": [list(ce), list(ue)], "provider": provider},
                              f"[{provider}] cond={ce} unless={ue}: instantiation raised "
                              f"{type(e).__name__}: {e}")
                continue
            for combo in itertools.product((True, False, 0, "s", None, [0], 1, "1"), repeat=3):
                pv = dict(zip(names, combo))
                holder["vals"] = pv
                del reads[:]
                sm.current_state_value = "st_a"
                try:
                    sm.send("go")
                    fired = sm.current_state_value == "st_b"
                except sm.TransitionNotAllowed:
                    fired = False

                def ev(e):
                    return bool(eval(e.replace("!", " not "), {"__builtins__": {}}, dict(pv)))  # noqa: S307
                exp = all(ev(e) for e in ce) and not any(ev(e) for e in ue)
                res.stats["evaluations"] += 1
                if exp != fired:
                    res.violation({"category": "cond-unless-list", "provider": provider},
                                  {"lists": [list(ce), list(ue)], "vals": repr(pv),
                                   "provider": provider},
                                  f"[{provider}] cond={ce} unless={ue} with {pv}: expected "
                                  f"fires={exp}, observed {fired}")
                else:
                    res.hist["list:" + str(exp)] += 1


# -- entries given as callables ------------------------------------------------------------------

# (callable objects without __name__ - functools.partial, instances with __call__ - are refused by
# the declaration API itself with an AttributeError and are outside the documented domain)
CALLABLE_KINDS = ("function", "lambda", "bound-method", "property-object",
                  "listener-property-object")


def callable_entries(res):
    """cond/unless entries that are callables living *outside* the class (functions reading an
    external object, bound methods of an external object, partials, property objects): every
    evaluation reads the current value of that very object - for transitions declared with to()
    and for the per-state copies made by from_.any()."""
    from statemachine import State, StateMachine
    from statemachine.factory import StateMachineMetaclass
    for kind in CALLABLE_KINDS:
        for polarity in ("cond", "unless"):
            for any_style in (False, True):
                class Flag:
                    def __init__(self):
                        self.value = False
                        self.reads = 0

                    def is_on(self, *args, **kwargs):
                        self.reads += 1
                        return self.value
                flag = Flag()
                if kind == "function":
                    def entry(flag=flag):
                        return flag.is_on()
                elif kind == "lambda":
                    entry = lambda: flag.is_on()   # noqa: E731
                elif kind == "bound-method":
                    entry = flag.is_on
                elif kind == "listener-property-object":
                    # the property belongs to the listener's class and is passed by reference;
                    # the machine (an earlier provider) has a property of the same name with
                    # the opposite constant value, which must not be consulted
                    def is_on(self, flag=flag):
                        return flag.is_on()
                    LisP = type("LisP", (), {"is_on": property(is_on)})
                    entry = LisP.is_on
                else:
                    def is_on(self, flag=flag):
                        return flag.is_on()
                    entry = property(is_on)
                sa, sb = State(initial=True), State()
                ns = {"st_a": sa, "st_b": sb, "back": sb.to(sa)}
                if kind == "property-object":
                    ns["is_on"] = entry      # a property of the class, passed by reference
                if kind == "listener-property-object":
                    def decoy(self, p=polarity):
                        return p != "cond"
                    decoy.__name__ = "is_on"
                    ns["is_on"] = property(decoy)
                if any_style:
                    ns["go"] = sb.from_.any(**{polarity: entry})
                else:
                    ns["go"] = sa.to(sb, **{polarity: entry})
                sc = {"callable_entry": [kind, polarity, any_style]}
                try:
                    cls = StateMachineMetaclass("MC8", (StateMachine,), ns)
                    sm = cls(listeners=[LisP()]) if kind == "listener-property-object" else cls()
                except Exception as e:   # noqa: BLE001
                    res.stats["evaluations"] += 1
                    res.violation({"category": "callable-entry-rejected", "kind": kind}, sc,
                                  f"{polarity}=<{kind}> ({'from_.any()' if any_style else 'to()'}): "
                                  f"{type(e).__name__}: {e}")
                    continue
                for seq in itertools.product((True, False, 0, "s"), repeat=2):
                    for v in seq:
                        flag.value = v
                        before = flag.reads
                        sm.current_state_value = "st_a"
                        try:
                            sm.send("go")
                            fired = sm.current_state_value == "st_b"
                        except sm.TransitionNotAllowed:
                            fired = False
                        exp = bool(v) == (polarity == "cond")
                        res.stats["evaluations"] += 1
                        if fired != exp or flag.reads != before + 1:
                            res.violation(
                                {"category": "callable-entry", "kind": kind, "any": any_style}, sc,
                                f"{polarity}=<{kind} of an external object> declared with "
                                f"{'from_.any()' if any_style else 'to()'}: the object currently "
                                f"says {v!r}: expected fires={exp} after exactly one read of it, "
                                f"observed fires={fired} after {flag.reads - before} read(s)")
                            break
                        res.hist["callable-entry:" + str(exp)] += 1
                    else:
                        continue
                    break


# -- resolution is per instance ---------------------------------------------------------------------

def per_instance_resolution(res):
    """The names of a guard are resolved against the providers of *each* instance: an instance
    whose model / listener lacks a name is rejected with InvalidDefinition however many valid
    instances of the same class were created before (or after), and the valid ones keep working."""
    from statemachine import State, StateMachine
    from statemachine.exceptions import InvalidDefinition
    from statemachine.factory import StateMachineMetaclass
    for entry in ("ready", "ok and ready", "not ready", "ready == 1"):
        for polarity in ("cond", "unless"):
            for where in ("model", "listener"):
                for order in (("good", "bad"), ("bad", "good"), ("good", "bad", "good"),
                              ("good", "good", "bad", "bad")):
                    sa, sb = State(initial=True), State()
                    ns = {"st_a": sa, "st_b": sb, "go": sa.to(sb, **{polarity: entry}),
                          "back": sb.to(sa), "ok": True}
                    cls = StateMachineMetaclass("MP8", (StateMachine,), ns)
                    Good = type("Good", (), {"state": None, "ready": 1})
                    Bad = type("Bad", (), {"state": None})
                    sc = {"per_instance": [entry, polarity, where, list(order)]}
                    for k, kind in enumerate(order):
                        obj = (Good if kind == "good" else Bad)()
                        res.stats["evaluations"] += 1
                        try:
                            sm = cls(obj) if where == "model" else cls(listeners=[obj])
                            built_ok = True
                        except InvalidDefinition:
                            built_ok = False
                        except Exception as e:   # noqa: BLE001
                            res.violation({"category": "per-instance-resolution"}, sc,
                                          f"{polarity}={entry!r}, {where} #{k} ({kind}) of "
                                          f"{order}: {type(e).__name__}: {e}")
                            break
                        if built_ok != (kind == "good"):
                            res.violation(
                                {"category": "per-instance-resolution", "where": where}, sc,
                                f"{polarity}={entry!r}: instance #{k} of {order} has a {where} "
                                f"{'with' if kind == 'good' else 'without'} `ready` and was "
                                f"{'accepted' if built_ok else 'rejected'}")
                            break
                        if not built_ok:
                            continue
                        for v in (1, 0):
                            obj.ready = v
                            sm.current_state_value = "st_a"
                            try:
                                sm.send("go")
                                fired = sm.current_state_value == "st_b"
                            except sm.TransitionNotAllowed:
                                fired = False
                            val = eval(entry, {"__builtins__": {}}, {"ok": True, "ready": v})  # noqa: S307
                            exp = bool(val) == (polarity == "cond")
                            if fired != exp:
                                res.violation({"category": "per-instance-resolution"}, sc,
                                              f"{polarity}={entry!r} on instance #{k} of {order} "
                                              f"with ready={v}: fires={fired}, expected {exp}")
                                break
                        res.hist["per-instance:" + kind] += 1


# -- negative space ---------------------------------------------------------------------------------

ALLOWED_NODES = (ast.Expression, ast.BoolOp, ast.And, ast.Or, ast.UnaryOp, ast.Not, ast.Compare,
                 ast.Eq, ast.NotEq, ast.Lt, ast.LtE, ast.Gt, ast.GtE, ast.Name, ast.Load,
                 ast.Constant)
JUNK = ("+", "is", "&&", "=>", "if", "in", "~", "zz", "(", ")", "==", "not", "and")
NON_GRAMMAR = ("a + b", "f(a)", "a is b", "a if b else c", "a.b", "a[0]", "lambda: a", "a, b",
               "a in b", "-a", "a | b", "", " ", "()", "a b", "and", "not", "a and", "or b")


def grammar_valid(py, known):
    try:
        tree = ast.parse(py, mode="eval")
    except SyntaxError:
        return False
    for node in ast.walk(tree):
        if not isinstance(node, ALLOWED_NODES):
            return False
        if isinstance(node, ast.Name) and node.id not in known:
            return False
    return True


def corruptions(toks, opmask):
    out = []
    for i in range(len(toks)):
        out.append((toks[:i] + toks[i + 1:], opmask[:i] + opmask[i + 1:]))
        out.append((toks[:i + 1] + toks[i:], opmask[:i + 1] + opmask[i:]))
        for j in JUNK:
            if j != toks[i]:
                out.append((toks[:i] + [j] + toks[i + 1:],
                            opmask[:i] + [j in ("not", "and")] + opmask[i + 1:]))
    return out


def negative(res, exprs):
    """exprs: iterable of (expr_string, python_string) that may or may not be valid."""
    from statemachine.exceptions import InvalidDefinition
    names = ["a", "b", "c"]
    for (expr, py) in exprs:
        valid = grammar_valid(py, names) if py is not None else False
        res.stats["evaluations"] += 1
        try:
            cls, Mod, Lis, reads, holder = build_machine([expr], names, "method")
        except Exception as e:   # noqa: BLE001
            res.violation({"category": "class-statement-raises"}, {"negative": expr},
                          f"cond={expr!r}: the class statement itself raised "
                          f"{type(e).__name__}: {e}")
            continue
        holder["vals"] = {"a": True, "b": True, "c": True}
        try:
            sm = instantiate(cls, Mod, Lis)
            outcome = "accepted"
        except InvalidDefinition:
            outcome = "InvalidDefinition"
        except Exception as e:   # noqa: BLE001
            outcome = f"{type(e).__name__}"
        if valid:
            if outcome != "accepted":
                res.violation({"category": "valid-expression-rejected", "negative-space": True},
                              {"negative": expr},
                              f"cond={expr!r} is within the grammar (python: {py!r}) but "
                              f"instantiation gave {outcome}")
            else:
                res.hist["corruption-still-valid"] += 1
            continue
        if outcome == "InvalidDefinition":
            res.hist["invalid-rejected"] += 1
            continue
        if outcome == "accepted":
            # it must then at least not blow up at send(); but acceptance itself is the violation
            try:
                sm.send("go")
                late = "send() ok"
            except Exception as e:   # noqa: BLE001
                late = f"send() raised {type(e).__name__}"
            res.violation({"category": "invalid-expression-accepted"}, {"negative": expr},
                          f"cond={expr!r} is outside the grammar but the machine was "
                          f"instantiated ({late})")
        else:
            res.violation({"category": "invalid-expression-wrong-exception", "exc": outcome},
                          {"negative": expr},
                          f"cond={expr!r} is outside the grammar: instantiation raised {outcome} "
                          f"instead of InvalidDefinition")


# -- driver -------------------------------------------------------------------------------------

def systematic_trees(max_ops, max_nots=2):
    """Every binary tree shape with up to max_ops and/or nodes, every operator assignment, every
    placement of up to max_nots negations (on any node), leaves a, b, c, a, ... left to right."""
    def shapes(n):
        if n == 0:
            yield None
            return
        for left in range(n):
            for ls in shapes(left):
                for rs in shapes(n - 1 - left):
                    yield (ls, rs)

    def nodes(sh):
        return 1 if sh is None else 1 + nodes(sh[0]) + nodes(sh[1])

    def build(sh, ops, nots, leaves, pos):
        me = pos[0]
        pos[0] += 1
        if sh is None:
            t = atom(next(leaves))
        else:
            op = next(ops)
            t = (op, build(sh[0], ops, nots, leaves, pos), build(sh[1], ops, nots, leaves, pos))
        return ("not", t) if me in nots else t
    out = []
    for n in range(1, max_ops + 1):
        for sh in shapes(n):
            k = nodes(sh)
            for opsel in itertools.product(("and", "or"), repeat=n):
                for r in range(0, max_nots + 1):
                    for nots in itertools.combinations(range(k), r):
                        out.append(build(sh, iter(opsel), set(nots),
                                         itertools.cycle("abc"), [0]))
    return out


def all_trees(tier):
    k = 2 if tier == "quick" else 3
    base = bool_shapes(k) + cmp_shapes(k)
    out = list(base)
    if tier == "thorough":
        out += systematic_trees(3)
    for mp in CONFUSE:
        out += [substitute(t, mp) for t in bool_shapes(min(k, 2)) + cmp_shapes(1)]
    # literals in every atom position of the small shapes
    small = bool_shapes(1) + cmp_shapes(1)
    for t in small:
        for nm in names_of(t):
            for lit in LITS:
                out.append(substitute(t, {nm: lit}))
    seen = set()
    uniq = []
    for t in out:
        if t not in seen:
            seen.add(t)
            uniq.append(t)
    return uniq


def worker(block):
    res = BlockResult()
    kind = block[0]
    if kind == "a":
        _, tier, lo, hi = block
        for t in all_trees(tier)[lo:hi]:
            try:
                with deadline(300):
                    seam_a(res, t)
            except Hang:
                res.violation({"category": "hang"}, {"tree": t}, "seam (a) hung")
            res.stats["states"] += 1
    elif kind == "b":
        _, tier, lo, hi, provider = block
        small = bool_shapes(1) + cmp_shapes(1)
        small += [substitute(t, CONFUSE[0]) for t in bool_shapes(1)]
        for t in small[lo:hi]:
            with deadline(300):
                seam_b_valid(res, t, provider)
            res.stats["states"] += 1
    elif kind == "lists":
        with deadline(300):
            seam_b_lists(res)
            callable_entries(res)
            per_instance_resolution(res)
    else:
        _, tier, lo, hi = block
        small = bool_shapes(1) + [("cmp", (atom("a"), atom("b")), ("<=",)),
                                  ("cmp", (atom("a"), atom("1")), ("==",))]
        ex = []
        for t in small[lo:hi]:
            for (expr, py, toks, opmask) in renderings(t):
                if " " in expr or True:
                    for (ct, cm) in corruptions(toks, opmask):
                        for compact in (False, True):
                            if not ct:
                                continue
                            ex.append((join(ct, compact), to_python(ct, cm)))
        if lo == 0:
            ex += [(e, e) for e in NON_GRAMMAR]
            ex += [("zz", "zz"), ("a and zz", "a and zz"), ("!zz", "not zz")]
        seen = set()
        uniq = [x for x in ex if not (x[0] in seen or seen.add(x[0]))]
        with deadline(600):
            negative(res, uniq)
        res.stats["states"] += len(uniq)
    if kind == "a" and block[2] == 0:
        t = ("or", ("atom", "a"), ("and", ("atom", "b"), ("atom", "c")))
        res.samples.append({"tree": t, "renderings": [r[0] for r in renderings(t)][:6]})
    return res


def run(tier, seed):
    rep = Report(PID, tier, seed)
    nt = len(all_trees(tier))
    blocks = [("a", tier, i, min(i + 8, nt)) for i in range(0, nt, 8)]
    nsmall = len(bool_shapes(1) + cmp_shapes(1)) + len(bool_shapes(1))
    for provider in PROVIDERS:
        blocks += [("b", tier, i, min(i + 6, nsmall), provider) for i in range(0, nsmall, 6)]
    blocks.append(("lists",))
    nneg = len(bool_shapes(1)) + 2
    blocks += [("neg", tier, i, min(i + 2, nneg)) for i in range(0, nneg, 2)]
    total, capped = run_blocks(worker, blocks, seed=seed)
    rep.add_violations(total.violations, total.hist_sig)
    rep.harness_errors = total.stats.get("harness_errors", 0)
    rep.notes.extend(total.notes)
    rep.coverage = {
        "states": total.stats["states"],
        "transitions": total.stats["evaluations"],
        "traces_validated_against_impl": total.stats["evaluations"],
        "evaluations": total.stats["evaluations"],
        "trees": nt, "renderings": total.stats["renderings"],
        "providers": list(PROVIDERS),
        "outcome_histogram": dict(total.hist),
        "samples": total.samples or [{"note": "no sample"}],
        "rule": "states = expression trees / machines; transitions = (rendering, valuation) "
                "evaluations on the real parser or a real machine compared with Python's eval",
        "violations_total": total.stats.get("violations_total", 0),
        "violations_by_signature": total.hist_sig,
    }
    rep.assumptions = ["Python's eval on the token-wise translated expression is the reference",
                       "operand alphabets listed in the module docstring"]
    return rep.finish(exhaustive=not capped)


def _tup(x):
    return tuple(_tup(y) for y in x) if isinstance(x, list) else x


def replay(sc):
    res = BlockResult()
    if "negative" in sc:
        e = sc["negative"]
        negative(res, [(e, e.replace("!", " not ").replace("^", " and "))])
    elif "per_instance" in sc:
        per_instance_resolution(res)
        for v in res.violations:
            if v["scenario"] == sc:
                return v["message"]
        return None
    elif "callable_entry" in sc:
        callable_entries(res)
        for v in res.violations:
            if v["scenario"] == sc:
                return v["message"]
        return None
    elif "lists" in sc:
        seam_b_lists(res)
    elif sc.get("seam") == "b":
        seam_b_valid(res, _tup(sc["tree"]), sc["provider"])
    else:
        seam_a(res, _tup(sc["tree"]))
    for v in res.violations:
        if v["scenario"].get("expr") == sc.get("expr") or "expr" not in sc:
            return v["message"]
    return None

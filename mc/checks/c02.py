"""C02 - callback groups run in the documented order with the documented view of state.

Slot universe for one focal transition (A -> B | A -> A | internal) on events (e1, e2):
group x attachment way (naming convention, generic, inline name, inline callable, decorator)
x provider (machine, model, listener).  A scenario is a *population* (set of slots present)
x transition kind x triggering event x engine/coroutine mask.  Oracle: reference group sequence
(strict order between groups, set equality inside, exactly-once), injected event/source/
target/state, current state value and is_active seen from inside each callback.
"""

import itertools

from ..drive import Pair
from ..par import BlockResult, Hang, deadline, run_blocks
from ..ref import Ambiguous, Cfg
from ..report import Report
from ..spec import M, S, T, build

PID = "C02"
P3 = ("sm", "model", "L1")

# slot = (group, way, provider, name)
SLOTS = []
for p in P3:
    SLOTS += [("validators", "inline", p, "iv"), ("cond", "inline", p, "ic"),
              ("unless", "inline", p, "iu"),
              ("before", "generic", p, "before_transition"), ("before", "conv1", p, "before_e1"),
              ("before", "conv2", p, "before_e2"), ("before", "inline", p, "ib"),
              ("exit", "generic", p, "on_exit_state"), ("exit", "conv", p, "on_exit_a"),
              ("exit", "inline", p, "ix"),
              ("on", "generic", p, "on_transition"), ("on", "conv1", p, "on_e1"),
              ("on", "conv2", p, "on_e2"), ("on", "inline", p, "io"),
              ("enter", "generic", p, "on_enter_state"), ("enter", "conv", p, "on_enter_DST"),
              ("enter", "inline", p, "ie"),
              ("after", "conv1", p, "after_e1"), ("after", "conv2", p, "after_e2"),
              ("after", "inline", p, "ia"), ("after", "generic", p, "after_transition")]
# the same name attached to several groups of one transition / one state
for g in ("before", "on", "after", "exit", "enter"):
    SLOTS.append((g, "inline", "sm", "sh"))
for g, nm in (("validators", "v"), ("cond", "c"), ("unless", "u"), ("before", "b"), ("exit", "x"),
              ("on", "o"), ("enter", "e"), ("after", "a")):
    SLOTS.append((g, "callable", "fn", "f" + nm))
    SLOTS.append((g, "decorator", "dec", "d" + nm))

# a second inline callable with the same __name__ (two lambdas, two local functions `cb`)
for g, nm in (("cond", "c"), ("before", "b"), ("on", "o"), ("enter", "e")):
    SLOTS.append((g, "callable", "fn", "f" + nm + "#2"))

# two decorator-registered callbacks that share one function name (`def _(self)` twice)
SLOTS.append(("before", "decorator", "dec", "dup"))
SLOTS.append(("after", "decorator", "dec", "dup#2"))

KINDS = [(k, ev) for k in ("external", "self", "internal") for ev in ("e1", "e2")] + \
        [("rejected-first", "e1"), ("rejected-twin", "e1"), ("initial", None),
         # the focal transition is declared by a subclass, out of a state inherited from a base
         # class that was already instantiated and driven
         ("inherited", "e1"), ("inherited", "e2")]
ENGINES = ("sync-rtc", "sync-nonrtc", "async-all", "async-first", "async-wrapped")


def make_spec(pop, kind, mask):
    """pop: tuple of slot indexes."""
    dst = "b" if kind in ("external", "rejected-first", "rejected-twin", "inherited") else "a"
    if kind == "initial":
        dst = "a"          # the start state: its enter group is the only one that may run
    inl = {g: [] for g in ("validators", "cond", "unless", "before", "on", "after")}
    st_enter = {"a": [], "b": [], "c": []}
    st_exit = {"a": [], "b": [], "c": []}
    provided = []
    first = True
    for si in pop:
        (g, way, p, nm) = SLOTS[si]
        nm = nm.replace("DST", dst)
        fl = ""
        if mask == "async-all" or (mask in ("async-first", "async-wrapped") and first):
            fl = "a"
        elif mask == "async-wrapped":
            fl = "w"     # plain function returning an awaitable
        first = False
        if way in ("generic", "conv", "conv1", "conv2"):
            provided.append((p, nm, fl))
        elif way == "inline":
            if (p, nm) not in [(pp, nn) for (pp, nn, _f) in provided]:
                provided.append((p, nm, fl))
            entry = nm
            if g == "exit":
                st_exit["a"].append(entry)
            elif g == "enter":
                st_enter[dst].append(entry)
            else:
                inl[g].append(entry)
        else:
            entry = ("@" if way == "callable" else "%") + nm
            provided.append((p, nm, fl))
            if g == "exit":
                st_exit["a"].append(entry)
            elif g == "enter":
                st_enter[dst].append(entry)
            else:
                inl[g].append(entry)
    # A guard *name* provided by several objects is folded into one conjunction closure; when
    # those providers are coroutine functions they are never awaited on the pinned tree (known
    # finding, subject of C05/C12).  Here such guards stay plain functions.
    for gname in ("ic", "iu"):
        if sum(1 for (_p, n, _f) in provided if n == gname) > 1:
            provided = [(p, n, "" if n == gname else f) for (p, n, f) in provided]
    if mask == "async-wrapped":
        # guards/validators returning awaitables are left to C05; here only actions are wrapped
        provided = [(p, n, ("" if (f == "w" and n[1:] in "vcu" and len(n) == 2) else f))
                    for (p, n, f) in provided]
    if mask.startswith("async") and not any("a" in f for (_p, _n, f) in provided):
        return None    # no coroutine callback left: the mask does not apply
    states = (S("a", initial=True, enter=tuple(st_enter["a"]), exit=tuple(st_exit["a"])),
              S("b", enter=tuple(st_enter["b"]), exit=tuple(st_exit["b"])),
              S("c"))
    trans = []
    if kind in ("rejected-first", "rejected-twin"):
        # an earlier candidate for the same event that is rejected by its guard and carries
        # its own actions, none of which may run ("twin": it has the very same source, target
        # and events as the focal transition - two transitions that differ only in guard and
        # actions)
        twin = kind == "rejected-twin"
        trans.append(T("a", "b" if twin else "c", ("e1", "e2") if twin else ("e1",),
                       cond=("never",), before=("rej_b",), on=("rej_o",), after=("rej_a",)))
        provided += [("sm", "never", ""), ("sm", "rej_b", ""), ("sm", "rej_o", ""),
                     ("sm", "rej_a", "")]
    focal = T("a", dst, ("e1", "e2"), internal=(kind == "internal"),
              cond=tuple(inl["cond"]), unless=tuple(inl["unless"]),
              validators=tuple(inl["validators"]), before=tuple(inl["before"]),
              on=tuple(inl["on"]), after=tuple(inl["after"]))
    rest = [T("a", "b", ("tob",)), T("a", "c", ("toc",)), T("b", "a", ("back",)),
            T("c", "a", ("back",))]
    if kind == "inherited":
        trans = rest + [focal]       # build(split=len(rest)): the focal one is the subclass's
    else:
        trans.append(focal)
        trans += rest
    # every coroutine callback really suspends once (await point), so that phases which are
    # started concurrently or out of order show up in the begin/end markers
    awaits = tuple((("sm" if p == "dec" else p), n, 1) for (p, n, f) in provided if f)
    m = M(states=states, trans=tuple(trans), provided=tuple(provided), listeners=("L1",),
          awaits=awaits)
    return m


VALS = {"ic": True, "iu": False, "fc": True, "fu": False, "dc": True, "du": False, "never": False,
        "iv": True, "fv": True, "dv": True, "fc#2": True}


def run_scenario(pop, kind, ev, mask):
    m = make_spec(pop, kind, mask)
    if m is None:
        return None, None
    # every other population runs with falsy providers (empty collection-like listeners, a
    # model whose __bool__ is False): nothing observable may depend on their truth value
    built = build(m, falsy=(sum(pop) % 2 == 1), split=4 if kind == "inherited" else None)
    eng = "async" if mask.startswith("async") else "sync"
    cfg = Cfg(eng, mask != "sync-nonrtc", False, "facade" if eng == "async" else "direct")
    p = Pair(built, cfg, deep=True)
    r = p.construct()
    if r:
        return r, p
    if eng == "async":
        r = p.activate()
        if r:
            return r, p
    if kind == "initial":
        return None, p
    r = p.send(ev, dict(VALS), tag="t0") or p.check_views()
    if r:
        return r, p
    # come back and fire again: exactly-once must hold the second time too
    if kind in ("external", "rejected-first", "rejected-twin", "inherited"):
        r = p.send("back", dict(VALS), tag="t1")
        if r:
            return r, p
    other = "e2" if ev == "e1" else "e1"
    if kind in ("rejected-first", "rejected-twin"):
        other = "e1"
    r = p.send(other, dict(VALS), tag="t2") or p.check_views()
    return r, p


def populations(tier):
    n = len(SLOTS)
    out = [()]
    out += [(i,) for i in range(n)]
    out += list(itertools.combinations(range(n), 2))
    out.append(tuple(range(n)))
    if tier == "thorough":
        out += list(itertools.combinations(range(n), 3))
        out += [tuple(j for j in range(n) if j != i) for i in range(n)]
    return out


def worker(block):
    tier, lo, hi = block
    res = BlockResult()
    pops = populations(tier)[lo:hi]
    for pop in pops:
        for (kind, ev) in KINDS:
            for mask in ENGINES:
                if mask in ("async-first", "async-wrapped") and len(pop) < 2:
                    continue
                res.stats["evaluations"] += 1
                try:
                    with deadline(30):
                        msg, p = run_scenario(pop, kind, ev, mask)
                except Ambiguous:
                    res.stats["ambiguous_skipped"] += 1
                    continue
                except Hang:
                    msg, p = "scenario hung", None
                if p is not None:
                    res.stats["states"] += 1
                    res.stats["transitions"] += p.steps
                    res.stats["callbacks_compared"] += p.impl.env.seq // 2
                res.hist[f"{kind}/{mask}"] += 1
                if msg:
                    cat = _cat(msg)
                    names = {SLOTS[i][3] for i in pop}
                    if {"dup", "dup#2"} <= names and "missing 1 required positional argument: " \
                            "'self'" in msg:
                        # root cause known on the pinned tree (see known_findings.json)
                        cat = "decorated-callbacks-sharing-a-function-name"
                    res.violation({"category": cat, "kind": kind, "mask": mask},
                                  {"pop": [list(SLOTS[i]) for i in pop], "pop_idx": list(pop),
                                   "kind": kind, "event": ev, "mask": mask}, msg)
                elif len(res.samples) < 1 and len(pop) == 2:
                    res.samples.append({"pop": [list(SLOTS[i]) for i in pop], "kind": kind,
                                        "event": ev, "mask": mask})
    return res


def _cat(msg):
    for key in ("is_active", "result", "trace", "stored state", "exception", "outcome kind",
                "dirty", "phase discipline", "hung", "allowed_events", "event_data"):
        if key in msg:
            return key
    return "other"


def run(tier, seed):
    rep = Report(PID, tier, seed)
    n = len(populations(tier))
    step = 24 if tier == "quick" else 200
    blocks = [(tier, i, min(i + step, n)) for i in range(0, n, step)]
    total, capped = run_blocks(worker, blocks, seed=seed,
                               time_cap=None if tier == "quick" else 3000)
    rep.add_violations(total.violations, total.hist_sig)
    rep.harness_errors = total.stats.get("harness_errors", 0)
    rep.notes.extend(total.notes)
    rep.coverage = {
        "states": total.stats["states"],
        "transitions": total.stats["transitions"],
        "traces_validated_against_impl": total.stats["states"],
        "evaluations": total.stats["evaluations"],
        "callbacks_compared": total.stats["callbacks_compared"],
        "slots": len(SLOTS), "populations": n,
        "kinds": [list(k) for k in KINDS], "engines": list(ENGINES),
        "ambiguous_skipped": total.stats["ambiguous_skipped"],
        "blocks_done": total.stats["blocks_done"], "blocks_total": total.stats["blocks_total"],
        "outcome_histogram": dict(total.hist),
        "samples": total.samples or [{"note": "no sample"}],
        "rule": "states = generated machine classes executed (population x kind x engine mask), "
                "transitions = operations compared with the reference group sequence",
        "violations_total": total.stats.get("violations_total", 0),
    }
    rep.assumptions = ["reference group sequence and applicability rules in mc/ref.py",
                       "order inside one group is unconstrained (documented)"]
    return rep.finish(exhaustive=not capped, caps={"time_cap_s": 3000} if capped else None)


def replay(sc):
    msg, _ = run_scenario(tuple(sc["pop_idx"]), sc["kind"], sc["event"], sc["mask"])
    return msg

"""C11 - initial activation happens once; a stored state is resumed untouched.

Ring machine with enter callbacks of every kind (generic, per-state convention, inline; machine,
model, listener), optionally sending events from the initial enter.  Enumerated: stored value
(none / every state value) x start_value (unset / every value) x every operation history up to
length L over {events, activate_initial_state(), re-construct a machine over the same model
(with or without start_value)} x engine configs.  Oracle: reference activation log - exactly one
enter group of the start state under `__initial__` iff nothing is stored, otherwise no callback at
all and the stored value untouched; re-activation is a no-op; a re-constructed machine continues
exactly like the one that produced the value; on the async engine activation precedes the first
event's first callback.
"""

import itertools

from ..drive import Pair
from ..env import Plan
from ..par import BlockResult, Hang, deadline, run_blocks
from ..ref import Ambiguous, Cfg
from ..report import Report
from ..spec import M, S, T, build

PID = "C11"
CFGS = (Cfg("sync", True, False, "direct"), Cfg("sync", False, False, "direct"),
        Cfg("async", True, False, "facade"), Cfg("async", True, False, "inloop"),
        Cfg("sync", True, True, "direct"))
VALUES = ("s0", 0, "")     # s0 keeps the default value (its id), s1 -> 0, s2 -> ""


class Phase(__import__("enum").Enum):
    """State values that are enum *members* (objects with a `.value` of their own)."""
    draft = 1
    review = 0
    done = ""


VALUES_ENUM = (Phase.draft, Phase.review, Phase.done)
ALPHA = {"plain": VALUES, "enum": VALUES_ENUM, "swrapped": VALUES}

_B = {}


def machine(asyn, alpha="plain"):
    fl = "a" if asyn else ""
    if alpha == "enum":
        states = (S("s0", initial=True, value=Phase.draft, enter=("ie0",)),
                  S("s1", value=Phase.review, enter=("ie1",)), S("s2", value=Phase.done))
    else:
        states = (S("s0", initial=True, enter=("ie0",)), S("s1", value=0, enter=("ie1",)),
                  S("s2", value=""))
    trans = []
    for i in range(3):
        trans.append(T(f"s{i}", f"s{(i + 1) % 3}", ("a",)))
        trans.append(T(f"s{i}", f"s{i}", ("b",)))
    prov = []
    for p in ("sm", "model", "L1"):
        prov.append((p, "on_enter_state", fl))
        prov.append((p, "on_exit_state", fl))
    for nm in ("on_enter_s0", "on_enter_s1", "on_enter_s2", "ie0", "ie1", "before_transition",
               "after_transition"):
        prov.append(("sm", nm, fl))
    prov.append(("L1", "on_enter_s1", fl))
    prov.append(("model", "ie0", fl))
    if alpha == "swrapped":
        # all plain functions; some are functools.wraps wrappers around an `async def`
        # (async-to-sync adapters): still plain functions, the machine runs on the sync engine
        # and is activated by its constructor
        prov = [(p, n, "S" if (p, n) in (("sm", "ie0"), ("L1", "on_enter_s1"),
                                         ("sm", "on_enter_state")) else f)
                for (p, n, f) in prov]
    return M(states=states, trans=tuple(trans), provided=tuple(prov), listeners=("L1",))


def built_for(asyn, alpha="plain"):
    if (asyn, alpha) not in _B:
        _B[(asyn, alpha)] = build(machine(asyn, alpha))
    return _B[(asyn, alpha)]


RULES = (
    {},
    {(("sm", "on_enter_state"), "__initial__"): (("a",), 1)},
    {(("L1", "on_enter_state"), "__initial__"): (("a", "b"), 1)},
    {(("model", "ie0"), "__initial__"): (("b",), 1)},
)
OPS = ("a", "b", "activate", "re", "re-sv1", "re-sv2", "old-a")


def run_history(cfg, stored_i, sv_i, rules_i, hist, alpha="plain"):
    """stored_i / sv_i: None or index into VALUES. Returns message|None and op count."""
    VALUES = ALPHA[alpha]
    built = built_for(cfg.engine == "async", alpha)
    plan = Plan(rules=dict(RULES[rules_i]))
    stored = None if stored_i is None else VALUES[stored_i]
    sv = None if sv_i is None else VALUES[sv_i]
    p = Pair(built, cfg, plan=plan, stored=stored, start_value=sv)
    steps = 0
    msg = p.construct()
    steps += 1
    if msg:
        return f"construct: {msg}", steps
    if cfg.engine == "async" and stored is None:
        # a pure query on a machine that is not active yet is only a query: it reports that
        # there is no current state, it does not activate anything
        msg = query_before_activation(p)
        if msg:
            return f"query before activation: {msg}", steps
    n = 0
    prev = None
    for i, op in enumerate(hist):
        steps += 1
        if op == "old-a":
            # the machine that was replaced by a re-construction is still alive and shares the
            # model: drive it once more (two machines over one model, e.g. two not yet
            # activated async machines)
            if prev is None:
                continue
            n += 1
            prev.ref.value = p.ref.value
            msg = prev.send("a", {}, tag=f"e{n}")
            p.ref.value = prev.ref.value
        elif op in ("a", "b"):
            n += 1
            msg = p.send(op, {}, tag=f"e{n}") or p.check_views()
        elif op == "activate":
            msg = p.activate()
        else:
            # a second machine over the same model (restart / persistence use case)
            model = p.impl.sm.model
            value = p.ref.value
            sv2 = {"re": None, "re-sv1": VALUES[1], "re-sv2": VALUES[2]}[op]
            q = Pair(built, cfg, plan=plan, stored=value, start_value=sv2, model=model)
            # rule budgets are per scenario: carry the counters over
            q.ref.fired = p.ref.fired
            q.impl.env.fired = p.impl.env.fired
            msg = q.construct()
            if msg is None and q.impl.sm.model is not model:
                msg = "re-constructed machine does not use the given model"
            prev = p
            p = q
        if msg:
            return f"op {i} ({op}): {msg}", steps
        # nothing stored => after any completed sync call a state must be stored
    return None, steps


def query_before_activation(p):
    from statemachine.exceptions import InvalidStateValue
    sm = p.impl.sm
    field = p.impl.state_field
    for what in ("current_state", "allowed_events"):
        try:
            got = getattr(sm, what)
        except InvalidStateValue:
            got = None
        except Exception as e:   # noqa: BLE001
            return f"sm.{what} raised {type(e).__name__}: {e}"
        if got is not None and p.ref.value is None and p.cfg.driver == "inloop":
            return f"sm.{what} returned {got!r} although the machine was never activated"
        v = getattr(sm.model, field, None)
        if v != p.ref.value or type(v) is not type(p.ref.value):
            return (f"reading sm.{what} changed the stored state to {v!r} (reference: "
                    f"{p.ref.value!r})")
    return None


def histories(L):
    out = []
    for n in range(0, L + 1):
        out.extend(itertools.product(OPS, repeat=n))
    return out


def space(tier):
    out = []
    for ci in range(len(CFGS)):
        for stored_i in (None, 0, 1, 2):
            for sv_i in (None, 0, 1, 2):
                for ri in range(len(RULES)):
                    if ri and stored_i is not None:
                        continue
                    out.append((ci, stored_i, sv_i, ri, "plain"))
    # state values that are enum members (start_value and stored values are the members)
    for ci in (0, 2, 3):
        for stored_i in (None, 0, 1, 2):
            for sv_i in (None, 0, 1, 2):
                out.append((ci, stored_i, sv_i, 0, "enum"))
    for ci in (0, 1):
        for stored_i in (None, 1):
            for sv_i in (None, 2):
                for ri in (0, 1):
                    if ri and stored_i is not None:
                        continue
                    out.append((ci, stored_i, sv_i, ri, "swrapped"))
    return out


def attach_during_activation(res):
    """An enter callback of the initial state (generic or the state's own hook; on the machine,
    the model or a listener) attaches a further listener while the activation is running: the
    initial state is still entered exactly once - every enter callback, the attaching one
    included, runs once - and the new listener takes part in the events that follow."""
    from .c12 import run_in_callback
    for asyn in (False, True):
        for point in ("on_enter_state", "on_enter_a"):
            for who in ("listener", "machine", "model"):
                res.stats["evaluations"] += 1
                res.stats["states"] += 1
                res.stats["transitions"] += 4
                res.hist["listener-attached-during-activation"] += 1
                try:
                    with deadline(30):
                        msg = run_in_callback(asyn, point, who, "activation")
                except Hang:
                    msg = "hung"
                if msg:
                    res.violation({"category": "attach-during-activation",
                                   "engine": "async" if asyn else "sync"},
                                  {"attach_during_activation": [asyn, point, who]},
                                  f"[{'async' if asyn else 'sync'}] add_listener() called from "
                                  f"the {who}'s `{point}` during the initial activation: {msg}")


def worker(block):
    tier, lo, hi, L = block
    res = BlockResult()
    if lo == 0:
        attach_during_activation(res)
    hs = histories(L)
    for (ci, stored_i, sv_i, ri, alpha) in space(tier)[lo:hi]:
        cfg = CFGS[ci]
        for hist in hs:
            res.stats["evaluations"] += 1
            try:
                with deadline(30):
                    msg, steps = run_history(cfg, stored_i, sv_i, ri, hist, alpha)
            except Ambiguous:
                res.stats["ambiguous_skipped"] += 1
                continue
            except Hang:
                msg, steps = "history hung", 0
            res.stats["transitions"] += steps
            res.stats["states"] += 1
            res.hist["stored" if stored_i is not None else "fresh"] += 1
            if msg:
                res.violation({"category": _cat(msg), "engine": cfg.engine, "rtc": cfg.rtc,
                               "stored": stored_i is not None},
                              {"cfg_index": ci, "stored_i": stored_i, "sv_i": sv_i, "rules_i": ri,
                               "history": list(hist), "alpha": alpha}, msg)
            elif len(res.samples) < 1 and len(hist) == L and "re" in hist:
                res.samples.append({"cfg": list(cfg), "stored": repr(None if stored_i is None
                                                                      else VALUES[stored_i]),
                                    "start_value": repr(None if sv_i is None else VALUES[sv_i]),
                                    "rules_i": ri, "history": list(hist)})
    return res


def _cat(msg):
    for key in ("trace", "stored state", "exception", "outcome kind", "result", "dirty",
                "does not use the given model", "phase discipline", "hung", "current_state"):
        if key in msg:
            return key
    return "other"


def run(tier, seed):
    rep = Report(PID, tier, seed)
    sp = space(tier)
    L = 3 if tier == "quick" else 4
    step = 2
    blocks = [(tier, i, min(i + step, len(sp)), L) for i in range(0, len(sp), step)]
    total, capped = run_blocks(worker, blocks, seed=seed)
    rep.add_violations(total.violations, total.hist_sig)
    rep.harness_errors = total.stats.get("harness_errors", 0)
    rep.notes.extend(total.notes)
    rep.coverage = {
        "states": total.stats["states"],
        "transitions": total.stats["transitions"],
        "traces_validated_against_impl": total.stats["states"],
        "evaluations": total.stats["evaluations"],
        "history_len": L, "ops": list(OPS), "values": [repr(v) for v in VALUES],
        "configs": [list(c) for c in CFGS],
        "outcome_histogram": dict(total.hist),
        "ambiguous_skipped": total.stats["ambiguous_skipped"],
        "samples": total.samples or [{"note": "no sample"}],
        "rule": "states = complete histories executed; transitions = operations compared with the "
                "reference activation log",
        "violations_total": total.stats.get("violations_total", 0),
    }
    rep.assumptions = ["reference activation semantics in mc/ref.py"]
    return rep.finish(exhaustive=not capped)


def replay(sc):
    if "attach_during_activation" in sc:
        from .c12 import run_in_callback
        asyn, point, who = sc["attach_during_activation"]
        return run_in_callback(asyn, point, who, "activation")
    msg, _ = run_history(CFGS[sc["cfg_index"]], sc["stored_i"], sc["sv_i"], sc["rules_i"],
                         sc["history"], sc.get("alpha", "plain"))
    return msg

"""Reference interpreter: the documented semantics, kept boring.

Written from the property statements and docs (actions.md "Ordering", guards.md,
processing_model.md), not from the engine code.  It produces, for every
operation, the expected outcome (result / exception / stored value) and the
expected tree of callback groups.
"""

from collections import Counter, deque, namedtuple

from .env import NOPLAN, Boom, Rec, ValidatorError, child_tag, make_boom
from .spec import IDENT, M, names_in

Cfg = namedtuple("Cfg", "engine rtc allow driver")
Cfg.__new__.__defaults__ = ("sync", True, False, "direct")


class RefTNA(Exception):
    """Reference's TransitionNotAllowed(event, state)."""

    def __init__(self, event, state):
        super().__init__(event, state)
        self.event = event
        self.state = state


class RefInvalidStateValue(Exception):
    pass


class Ambiguous(Exception):
    """The scenario's outcome depends on intra-group order, which the
    documentation leaves open; the generator should not have produced it."""


class Group:
    __slots__ = ("kind", "tidx", "mode", "calls", "verdict", "required", "optional", "raiser",
                 "values", "siblings")

    def __init__(self, kind, tidx, mode="all"):
        self.kind = kind
        self.tidx = tidx
        self.mode = mode
        self.calls = []
        self.verdict = None
        self.required = {}     # cid -> expected value (guards: must be read when verdict passes)
        self.optional = {}     # cid -> expected value (names inside expressions)
        self.raiser = None
        self.values = {}
        self.siblings = ()

    def as_json(self):
        return {"kind": self.kind, "tidx": self.tidx, "mode": self.mode,
                "calls": [c.as_json() for c in self.calls], "verdict": self.verdict,
                "guards": sorted(map(str, list(self.required) + list(self.optional)))}


Outcome = namedtuple("Outcome", "kind value groups")   # kind: ok | exc

SENT = object()


class EvI:
    __slots__ = ("name", "tag", "args", "kw", "initial")

    def __init__(self, name, tag=None, args=(), kw=None, initial=False):
        self.initial = initial
        self.name = name
        self.tag = tag
        self.args = args
        self.kw = kw or {}


_OPS = {"!": " not ", "^": " and "}


def translate_expr(expr):
    """Token-wise translation of the documented alternative spellings to Python."""
    import re
    toks = re.findall(r"'[^']*'|[A-Za-z_][A-Za-z_0-9]*|\d+(?:\.\d+)?|==|!=|>=|<=|[!^()<>]|\S", expr)
    out = []
    for t in toks:
        if t == "!":
            out.append("not")
        elif t == "^":
            out.append("and")
        elif t == "v":
            out.append("or")
        else:
            out.append(t)
    return " ".join(out)


class Ref:
    def __init__(self, m: M, cfg: Cfg, plan=None, stored=None, start_value=None, results="cid"):
        self.m = m
        self.cfg = cfg
        self.plan = plan or NOPLAN
        self.fired = Counter()
        self.value = stored
        self.start_value = start_value
        self.queue = deque()
        self.busy = False
        self.count = Counter()
        self.results = results
        self.vals = {}
        self.stack = []        # open expected calls (for non-rtc nesting)
        self.top = None        # current top-level group list
        self.activated = False
        self.nested_returns = []
        self.trans_of = {}
        for i, t in enumerate(m.trans):
            self.trans_of.setdefault(t.src, []).append((i, t))

    # -- helpers ----------------------------------------------------------------
    def cur(self):
        return self.m.by_value(self.value)

    def _emit_group(self, g):
        (self.stack[-1].children if self.stack else self.top).append(g)

    def default_result(self, rec):
        if rec.cid in self.plan.rets:
            return self.plan.rets[rec.cid]
        if self.results == "cid":
            return f"{rec.cid[0]}.{rec.cid[1]}@{rec.tag}"
        return None

    def _planned(self, cid, ctx):
        evi, tidx = ctx[0], ctx[1]
        rule = self.plan.rules.get((cid, evi.name))
        return rule is not None or (cid, evi.tag, tidx) in self.plan.faults

    def _new_rec(self, cid, kind, ctx, state):
        n = self.count[cid]
        self.count[cid] = n + 1
        evi, tidx, src, dst = ctx
        return Rec(cid, n, kind, tidx=tidx, event=evi.name, source=src, target=dst, state=state,
                   cur=self.value, tag=evi.tag, args=tuple(evi.args), ukw=dict(evi.kw))

    # -- a group of action callbacks -------------------------------------------
    def _run_group(self, kind, cids, ctx, state):
        """Run every callback of the group (reference order = listed order)."""
        g = Group(kind, ctx[1])
        if not cids:
            return []
        self._emit_group(g)
        g.siblings = tuple(cids)
        if len(cids) > 1 and sum(1 for c in cids if self._planned(c, ctx)) > 1:
            raise Ambiguous(f"two planned callbacks in one {kind} group")
        results = []
        for cid in cids:
            rec = self._new_rec(cid, "val" if kind == "validators" else "act", ctx, state)
            g.calls.append(rec)
            self.stack.append(rec)
            try:
                if kind == "validators":
                    ok = self.vals.get(cid, self.vals.get(cid[1], True))
                    rec.value = ok
                    if not ok:
                        if any(self._planned(c, ctx) for c in cids if c != cid):
                            raise Ambiguous("validator rejects next to a planned sibling")
                        raise ValidatorError(cid[1])
                    self._steps(rec)
                    results.append(f"val:{cid[1]}")
                else:
                    rec.value = self._steps(rec)
                    results.append(rec.value)
            except Ambiguous:
                raise
            except Exception:
                g.mode = "abort"
                g.raiser = rec
                raise
            finally:
                self.stack.pop()
        return results

    def _steps(self, rec):
        plan = self.plan
        rule = plan.rules.get((rec.cid, rec.event))
        if rule is not None:
            evs, budget = rule[0], rule[1]
            same = len(rule) > 2      # identical nested sends (same tag, same kwargs)
            key = (rec.cid, rec.event)
            if self.fired[key] < budget:
                self.fired[key] += 1
                for k, ev in enumerate(evs):
                    tag = child_tag(rec.tag, rec.cid, 0 if same else k)
                    try:
                        if ev.startswith("="):
                            self.value = self.m.state(ev[1:]).val
                            r = None
                        else:
                            r = self._send(EvI(ev, tag, (), {"tag": tag}))
                    except Exception as e:
                        self.nested_returns.append((rec.cid, ev, tag, ("EXC", e)))
                        raise
                    self.nested_returns.append((rec.cid, ev, tag, r))
        k = plan.faults.get((rec.cid, rec.tag, rec.tidx))
        if k is not None:
            raise make_boom(k)
        return self.default_result(rec)
        for st in steps:
            op = st[0]
            if op == "raise":
                raise Boom(st[1])
            elif op == "send":
                ev, tag = st[1], st[2]
                try:
                    r = self._send(EvI(ev, tag, (), {"tag": tag}))
                except Exception as e:
                    self.nested_returns.append((rec.cid, rec.n, ev, tag, ("EXC", e)))
                    raise
                self.nested_returns.append((rec.cid, rec.n, ev, tag, r))
            elif op == "ret":
                result = st[1]
        return result

    # -- guards -------------------------------------------------------------------
    def _gval(self, prov, name):
        return self.vals.get((prov, name), self.vals.get(name, True))

    def _guard_group(self, t, ctx):
        """Evaluate cond/unless entries.  Returns verdict (bool); may raise Boom."""
        g = Group("cond", ctx[1], mode="guards")
        entries = [(e, True) for e in t.cond] + [(e, False) for e in t.unless]
        if not entries:
            return True
        verdict = True
        raising = []
        for (e, expected) in entries:
            if e[0] in "@%" or IDENT.match(e):
                nm = e.lstrip("@%")
                provs = ["fn"] if e[0] == "@" else ["sm"] if e[0] == "%" else \
                    self.m.providers_of(nm)
                for p in provs:
                    v = self._gval(p, nm)
                    # an `unless` name with several providers: whether every provider has to be
                    # read is decided by the verdict (C12), not by read-completeness
                    (g.required if (expected or len(provs) == 1) else g.optional)[(p, nm)] = v
                    if isinstance(v, tuple) and v and v[0] == "raise":
                        raising.append(v)
                        continue
                    if bool(v) != expected:
                        verdict = False
                        g.values[(p, nm)] = False      # reading this one ends the group
            else:
                val = self._eval_expr(e, g, raising)
                if bool(val) != expected:
                    verdict = False
        g.verdict = verdict
        self._emit_group(g)
        # counters: a guard read consumes an invocation index only on the implementation
        # side; the reference does not plan guards by index, so nothing to count here.
        if raising:
            if not verdict or len(raising) > 1:
                raise Ambiguous("raising guard next to a failing/raising sibling")
            g.mode = "guards-raise"
            raise make_boom(raising[0][1])
        return verdict

    lenient_expr_reads = False

    def _eval_expr(self, e, g, raising):
        names = names_in(e)
        ref = self
        if self.lenient_expr_reads:
            # a provider attached late carries the expression as a conjunct of its own: operands
            # that the per-name conjunction would skip may be read as well (the verdict is what
            # is compared)
            for key in names:
                for p in self.m.providers_of(key):
                    g.optional.setdefault((p, key), self._gval(p, key))

        class NS(dict):
            def __missing__(self, key):
                if key not in names:
                    raise KeyError(key)
                # conjunction over providers, short-circuit, first falsy or last value
                val = True
                for p in ref.m.providers_of(key):
                    val = ref._gval(p, key)
                    g.optional[(p, key)] = val
                    if isinstance(val, tuple) and val and val[0] == "raise":
                        raising.append(val)
                        val = True
                    if not val:
                        break
                return val

        code = translate_expr(e)
        return eval(code, {"__builtins__": {}}, NS())  # noqa: S307 - generated input only

    # -- applicability ----------------------------------------------------------
    def _named(self, names):
        out = []
        seen = set()
        for nm in names:
            if nm.startswith("@") or nm.startswith("%"):
                cid = ("fn" if nm[0] == "@" else "sm", nm[1:])
                if cid not in seen:
                    seen.add(cid)
                    out.append(cid)
                continue
            for p in self.m.providers_of(nm):
                cid = (p, nm)
                if cid not in seen:
                    seen.add(cid)
                    out.append(cid)
        return out

    def cids_validators(self, t):
        return self._named(t.validators)

    def cids_before(self, t, ev):
        return self._named(("before_transition",) + t.before +
                           tuple(f"before_{e}" for e in t.events if e == ev))

    def cids_on(self, t, ev):
        return self._named(("on_transition",) + t.on + tuple(f"on_{e}" for e in t.events if e == ev))

    def cids_after(self, t, ev):
        return self._named(t.after + tuple(f"after_{e}" for e in t.events if e == ev) +
                           ("after_transition",))

    def cids_exit(self, s):
        return self._named(("on_exit_state",) + s.exit + (f"on_exit_{s.id}",))

    def cids_enter(self, s):
        return self._named(("on_enter_state",) + s.enter + (f"on_enter_{s.id}",))

    # -- transitions ------------------------------------------------------------------
    def _activate(self, evi, tidx, t):
        src = self.m.state(t.src)
        dst = self.m.state(t.dst)
        ctx = (evi, tidx, t.src, t.dst)
        self._run_group("validators", self.cids_validators(t), ctx, t.src)
        if not self._guard_group(t, ctx):
            return False, None
        res = self._run_group("before", self.cids_before(t, evi.name), ctx, t.src)
        if not t.internal:
            self._run_group("exit", self.cids_exit(src), ctx, t.src)
        res = res + self._run_group("on", self.cids_on(t, evi.name), ctx, t.src)
        nb = len(res)
        self.value = dst.val
        if not t.internal:
            self._run_group("enter", self.cids_enter(dst), ctx, t.dst)
        self._run_group("after", self.cids_after(t, evi.name), ctx, t.dst)
        del nb
        return True, unwrap(res)

    def _activate_initial(self, evi):
        if self.start_value is not None:
            try:
                s = self.m.by_value(self.start_value)
            except KeyError:
                raise RefInvalidStateValue(self.start_value) from None
        else:
            s = self.m.initial
        ctx = (evi, -1, "", s.id)
        self.value = s.val
        self._run_group("enter", self.cids_enter(s), ctx, s.id)

    def _trigger(self, evi):
        if evi.initial:
            # activation enters the start state only if, when its turn comes, the model still
            # holds no state (an async machine activates lazily: a valid value written to the
            # model in between is a stored state to be resumed, C10/C11)
            if self.value is None:
                self._activate_initial(evi)
            return SENT
        if self.value is None:
            raise RefInvalidStateValue(None)      # no current state (activation failed / absent)
        src = self.cur()
        for (tidx, t) in self.trans_of.get(src.id, ()):
            if evi.name not in t.events:
                continue
            ok, res = self._activate(evi, tidx, t)
            if ok:
                return res
        if not self.cfg.allow:
            raise RefTNA(evi.name, src.id)
        return None

    # -- processing --------------------------------------------------------------------
    def _send(self, evi):
        if not self.cfg.rtc:
            return self._drain_nonrtc(evi)
        self.queue.append(evi)
        return self._drain()

    def _drain_nonrtc(self, evi):
        r = self._trigger(evi)
        return None if r is SENT else r

    def _drain(self):
        if self.busy:
            return None
        self.busy = True
        first = SENT
        try:
            while self.queue:
                evi = self.queue.popleft()
                try:
                    r = self._trigger(evi)
                    if first is SENT:
                        first = r
                except Exception:
                    self.queue.clear()
                    raise
        finally:
            self.busy = False
        return None if first is SENT else first

    # -- public operations ----------------------------------------------------------
    def _op(self, fn, discard=False):
        self.top = []
        self.stack = []
        try:
            r = fn()
        except Ambiguous:
            raise
        except Exception as e:
            return Outcome("exc", e, self.top)
        return Outcome("ok", None if discard else r, self.top)

    def construct(self):
        """Machine construction.  Sync engine: activates at once.  Async: only enqueues."""
        def fn():
            if self.value is None:
                self.queue.append(EvI("__initial__", initial=True))
            if self.cfg.engine == "sync":
                if not self.cfg.rtc:
                    return self._drain_nonrtc(self.queue.popleft()) if self.queue else None
                return self._drain()
            return None
        return self._op(fn, discard=True)

    def activate(self):
        def fn():
            if not self.cfg.rtc:
                return self._drain_nonrtc(self.queue.popleft()) if self.queue else None
            return self._drain()
        return self._op(fn, discard=True)

    def send(self, ev, vals=None, tag=None, args=(), kw=None):
        if vals is not None:
            self.vals = vals
        kw = dict(kw or {})
        if tag is not None:
            kw["tag"] = tag
        return self._op(lambda: self._send(EvI(ev, tag, args, kw)))


def unwrap(res):
    if len(res) == 0:
        return None
    if len(res) == 1:
        return res[0]
    return list(res)

"""Evidence writer, replay artefacts, known-findings matcher."""

import hashlib
import json
import os
import time

ROOT = os.path.dirname(os.path.dirname(os.path.abspath(__file__)))
KNOWN = os.path.join(ROOT, "known_findings.json")


def _jsonable(x):
    if isinstance(x, dict):
        return {str(k): _jsonable(v) for k, v in x.items()}
    if isinstance(x, (list, tuple, set, frozenset)):
        return [_jsonable(v) for v in x]
    if isinstance(x, (str, int, float, bool)) or x is None:
        return x
    if hasattr(x, "to_json"):
        return _jsonable(x.to_json())
    if hasattr(x, "_asdict"):
        return _jsonable(x._asdict())
    return repr(x)


def load_known(pid):
    try:
        with open(KNOWN) as f:
            data = json.load(f)
    except FileNotFoundError:
        return []
    return [k for k in data.get("known", []) if k.get("property") == pid]


def sig_matches(match, sig):
    for k, v in match.items():
        if sig.get(k) != v:
            return False
    return True


class Report:
    def __init__(self, pid, tier, seed, level="model_checking"):
        self.pid = pid
        self.tier = tier
        self.seed = seed
        self.level = level
        self.t0 = time.time()
        self.coverage = {}
        self.assumptions = []
        self.violations = []      # unlisted
        self.known_hits = {}      # key -> (what, count)
        self.known = load_known(pid)
        self.notes = []
        self.harness_errors = 0

    def add_violations(self, vios, totals=None):
        """vios: retained examples (a few per signature); totals: {repr(sorted(sig.items())): n}
        with the full counts, used only for the numbers printed next to known findings."""
        self._totals = totals or {}
        for v in vios:
            sig = v.get("sig", {})
            hit = None
            for k in self.known:
                if sig_matches(k["match"], sig):
                    hit = k
                    break
            if hit is not None:
                key = hit.get("key", json.dumps(hit["match"], sort_keys=True))
                what, n = self.known_hits.get(key, (hit["what"], 0))
                tot = self._totals.get(repr(sorted(sig.items())))
                self.known_hits[key] = (what, n + 1)
                if tot:
                    self._known_totals = getattr(self, "_known_totals", {})
                    self._known_totals.setdefault(key, {})[repr(sorted(sig.items()))] = tot
            else:
                self.violations.append(v)

    def finish(self, exhaustive=True, caps=None):
        wall = time.time() - self.t0
        cov = dict(self.coverage)
        cov.setdefault("exhaustive", bool(exhaustive) and not caps)
        if caps:
            cov["caps_hit"] = caps
        cov["known_findings_matched"] = {k: n for k, (w, n) in self.known_hits.items()}
        if self.notes:
            cov["notes"] = self.notes[:10]
        replay_paths = []
        seen_sigs = set()
        for v in self.violations:
            key = json.dumps(_jsonable(v.get("sig", {})), sort_keys=True)
            if key in seen_sigs and len(replay_paths) >= 3:
                continue
            seen_sigs.add(key)
            if len(replay_paths) >= 25:
                break
            replay_paths.append(self._write_replay(v))
        ev = {
            "property_id": self.pid,
            "tier": self.tier,
            "seed": self.seed,
            "level": self.level,
            "coverage": _jsonable(cov),
            "assumptions": self.assumptions,
            "wall_s": round(wall, 3),
            "violations": len(self.violations),
        }
        os.makedirs(os.path.join(ROOT, "evidence"), exist_ok=True)
        path = os.path.join(ROOT, "evidence", f"{self.pid}.json")
        tmp = path + ".tmp"
        with open(tmp, "w") as f:
            json.dump(ev, f, indent=1, sort_keys=True)
            f.write("\n")
        os.replace(tmp, path)
        for key, (what, n) in sorted(self.known_hits.items()):
            tot = sum(getattr(self, "_known_totals", {}).get(key, {}).values()) or n
            print(f"KNOWN-FINDING: property={self.pid} {what} [{key}; {tot} case(s)]")
        for n in self.notes[:10]:
            print("NOTE:", n)
        for p in replay_paths:
            print(f"VIOLATION property={self.pid} replay={p}")
        summary = {k: v for k, v in cov.items()
                   if k in ("states", "transitions", "traces_validated_against_impl",
                            "evaluations", "distinct_nontrivial", "exhaustive", "schedules")}
        print(f"{self.pid} tier={self.tier} seed={self.seed} wall={wall:.1f}s "
              f"violations={len(self.violations)} {json.dumps(summary)}")
        if self.harness_errors:
            print(f"HARNESS-ERROR: {self.harness_errors} block(s) failed inside the harness")
            return 1 if self.violations else 2
        return 1 if self.violations else 0

    def _write_replay(self, v):
        d = os.path.join(ROOT, "replays", self.pid)
        os.makedirs(d, exist_ok=True)
        body = {"property": self.pid, "sig": _jsonable(v.get("sig", {})),
                "scenario": _jsonable(v.get("scenario")), "message": v.get("message")}
        blob = json.dumps(body, indent=1, sort_keys=True)
        sha = hashlib.sha1(blob.encode()).hexdigest()[:12]
        path = os.path.join(d, f"{sha}.json")
        with open(path, "w") as f:
            f.write(blob + "\n")
        return path

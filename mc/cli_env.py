import os


def repo_dir():
    return os.environ.get("VERIF_REPO", "/repo")

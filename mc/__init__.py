"""Bounded exhaustive exploration (model checking) of python-statemachine.

See /verif/DESIGN.md.  Everything here runs the *real* library found on
PYTHONPATH (normally /repo) and compares it with a small reference model.
"""

"""Group-wise comparison of an observed callback trace with the reference's expected groups.

Groups are strictly ordered; inside a group the order is unconstrained (as documented),
each expected callback exactly once.  Guard groups: every read belongs to the candidate's
guard set, each at most once; if the group passes all *required* guards were read, if it
fails at least one read value explains the failure.
"""


def _cmp_call(e, o, path):
    for f in ("event", "source", "target", "state", "tag"):
        ev, ov = getattr(e, f), getattr(o, f)
        if ev != ov:
            return f"{path}{o.brief()}: {f} expected {ev!r} observed {ov!r}"
    if e.tidx is not None and o.tidx is not None and e.tidx != o.tidx:
        return f"{path}{o.brief()}: transition index expected {e.tidx} observed {o.tidx}"
    if e.cur != o.cur or type(e.cur) is not type(o.cur):
        return f"{path}{o.brief()}: current state value seen inside expected {e.cur!r} observed {o.cur!r}"
    if tuple(e.args) != tuple(o.args):
        return f"{path}{o.brief()}: args expected {e.args!r} observed {o.args!r}"
    if e.ukw is not None and o.ukw is not None and e.ukw != o.ukw:
        return f"{path}{o.brief()}: user kwargs expected {e.ukw!r} observed {o.ukw!r}"
    return match_groups(e.children, o.children, path + f"{o.cid[0]}.{o.cid[1]}> ")


def match_groups(exp, obs, path="", strict_guards=False):
    """exp: list[Group]; obs: list[Rec] (in begin order). Returns None or a message."""
    i = 0
    n_obs = len(obs)
    for g in exp:
        if g.mode == "all":
            by = {c.cid: c for c in g.calls}
            seen = set()
            for _ in range(len(g.calls)):
                if i >= n_obs:
                    miss = sorted(set(by) - seen)
                    return f"{path}group {g.kind}(t{g.tidx}): missing callbacks {miss}"
                o = obs[i]
                e = by.get(o.cid)
                if e is None:
                    miss = sorted(set(by) - seen)
                    return (f"{path}group {g.kind}(t{g.tidx}): unexpected {o.brief()} while "
                            f"expecting one of {miss}")
                if o.cid in seen:
                    return f"{path}group {g.kind}(t{g.tidx}): {o.brief()} ran twice"
                seen.add(o.cid)
                r = _cmp_call(e, o, path)
                if r:
                    return r
                i += 1
        elif g.mode == "abort":
            by = {c.cid: c for c in g.calls}
            # siblings the reference did not reach may or may not have run
            seen = set()
            raiser = g.raiser.cid
            while i < n_obs and obs[i].cid in _members(g) and obs[i].cid not in seen:
                o = obs[i]
                seen.add(o.cid)
                e = by.get(o.cid)
                if e is not None:
                    r = _cmp_call(e, o, path)
                    if r:
                        return r
                i += 1
            if raiser not in seen:
                return f"{path}group {g.kind}(t{g.tidx}): failing callback {raiser} did not run"
        elif g.mode in ("guards", "guards-raise"):
            allowed = dict(g.required)
            allowed.update(g.optional)
            seen = {}
            while i < n_obs and obs[i].kind == "guard" and obs[i].cid in allowed \
                    and (obs[i].tidx == g.tidx or g.tidx is None or obs[i].tidx is None):
                o = obs[i]
                if o.cid in seen and (o.cid in g.required or not getattr(g, "dups_ok", False)):
                    return f"{path}guard {o.brief()} read twice for one candidate"
                seen[o.cid] = o.value
                i += 1
                if g.values.get(o.cid) is False:
                    break      # a guard that disables the candidate ends its evaluation
            if g.mode == "guards-raise":
                continue
            if g.verdict:
                miss = [c for c in g.required if c not in seen]
                if miss:
                    return f"{path}guards of t{g.tidx} passed but {miss} were never read"
            else:
                # the verdict itself is checked through the outcome (which candidate fires);
                # here: a failing group must have read at least one guard
                if not seen:
                    return f"{path}guards of t{g.tidx} failed but no guard was read"
        else:  # pragma: no cover
            raise AssertionError(g.mode)
    if i != n_obs:
        return f"{path}unexpected extra callback {obs[i].brief()} (+{n_obs - i - 1} more)"
    return None


def _members(g):
    return {c.cid for c in g.calls} | set(getattr(g, "siblings", ()))


def phase_discipline(exp, flat):
    """Async phase discipline: every callback of group i has ended before any callback of
    group i+1 begins.  `flat` are the observed records in begin order (already matched)."""
    i = 0
    last_end = -1
    for g in exp:
        n = 0
        if g.mode == "all":
            n = len(g.calls)
        else:
            # variable-length groups: consume while members
            mem = ({c.cid for c in g.calls} | set(g.required) | set(g.optional)
                   | set(g.siblings))
            while i + n < len(flat) and flat[i + n].cid in mem and n < len(mem):
                n += 1
        chunk = flat[i:i + n]
        for o in chunk:
            if o.seq_begin < last_end:
                return (f"{o.brief()} began (t={o.seq_begin}) before a callback of the previous "
                        f"group had ended (t={last_end})")
        for o in chunk:
            if not o.ended:
                return f"{o.brief()} never finished"
            last_end = max(last_end, o.seq_end)
        i += n
    return None

"""Virtual asyncio loop + stateless completion-order explorer.

The loop runs asyncio's ready queue in its documented FIFO order until it is empty
(quiescence).  Every harness await point is a bare future registered under its tag; at
quiescence the explorer decides which pending future completes next (or, with batches
enabled, which two complete in the same loop iteration).  Everything else (Task, gather,
as_completed, run_until_complete) is stock asyncio running on this loop.
"""

import asyncio
import heapq
from asyncio import events


class Deadlock(Exception):
    pass


class ReplayDivergence(Exception):
    """A prefix could not be replayed: the harness does not own all nondeterminism."""


class Chooser:
    __slots__ = ("prefix", "points", "batch")

    def __init__(self, prefix=(), batch=False):
        self.prefix = list(prefix)
        self.points = []       # (n_options, choice, tags)
        self.batch = batch

    def choose(self, tags, altcost=1, state=None):
        """tags: the options in canonical order (option 0 = default).  altcost: what taking a
        non-default option costs against the deviation/preemption bound (0 = free).  state: an
        optional canonical hash of the global state at this decision point (explicit-state
        pruning, see explore(seen=...))."""
        n = len(tags)
        nopt = n + (n * (n - 1) if self.batch else 0)
        if nopt <= 1:
            return 0
        i = len(self.points)
        c = self.prefix[i] if i < len(self.prefix) else 0
        if c >= nopt:
            raise ReplayDivergence(f"point {i}: choice {c} but only {nopt} options {tags}")
        self.points.append((nopt, c, tuple(tags), altcost, state))
        return c

    @property
    def choices(self):
        return [p[1] for p in self.points]


class VLoop(asyncio.BaseEventLoop):
    def __init__(self):
        super().__init__()
        self._vtime = 0.0
        self.pending = []          # [(tag, future)]
        self.chooser = Chooser()
        self.max_steps = 200000
        self.steps = 0

    # -- BaseEventLoop plumbing ------------------------------------------------------
    def time(self):
        return self._vtime

    def _process_events(self, event_list):  # pragma: no cover
        pass

    def _write_to_self(self):
        pass

    def reset(self, chooser):
        self.chooser = chooser
        self.pending = []
        self.steps = 0
        self._ready.clear()
        self._scheduled.clear()
        self._stopping = False

    def point(self, tag):
        fut = self.create_future()
        self.pending.append((tag, fut))
        return fut

    def _run_once(self):
        if not self._ready:
            live = [(t, f) for (t, f) in self.pending if not f.done()]
            if live:
                live.sort(key=lambda tf: repr(tf[0]))
                n = len(live)
                c = self.chooser.choose([t for t, _ in live])
                if c < n:
                    done = [live[c]]
                else:
                    c -= n
                    i, j = divmod(c, n - 1)
                    if j >= i:
                        j += 1
                    done = [live[i], live[j]]
                self.pending = [tf for tf in live if tf not in done]
                for (_t, f) in done:
                    f.set_result(None)
            elif self._scheduled:
                h = heapq.heappop(self._scheduled)
                self._vtime = max(self._vtime, h._when)
                h._scheduled = False
                if not h._cancelled:
                    self._ready.append(h)
            else:
                raise Deadlock("nothing ready, nothing pending, main task not finished")
        ntodo = len(self._ready)
        for _ in range(ntodo):
            h = self._ready.popleft()
            if h._cancelled:
                continue
            self.steps += 1
            if self.steps > self.max_steps:
                raise Deadlock("step budget exhausted (livelock?)")
            h._run()
        h = None

    # leftovers after the driver returned
    def leftovers(self):
        out = []
        live = [t for (t, f) in self.pending if not f.done()]
        if live:
            out.append(f"callbacks still suspended at await points {live}")
        pend = [t for t in asyncio.all_tasks(self) if not t.done()]
        if pend:
            out.append(f"{len(pend)} task(s) still pending")
        if self._ready:
            out.append(f"{len(self._ready)} handle(s) still in the ready queue")
        return out

    def drain_leftovers(self, limit=1000):
        """Let abandoned callbacks run to completion (so they cannot pollute the next execution)."""
        n = 0
        try:
            events._set_running_loop(self)
            while (self._ready or any(not f.done() for _, f in self.pending)) and n < limit:
                n += 1
                self._run_once()
        except Exception:
            pass
        finally:
            events._set_running_loop(None)
            for t in asyncio.all_tasks(self):
                if not t.done():
                    t.cancel()
            self._ready.clear()
            self.pending = []


class VPolicy(asyncio.DefaultEventLoopPolicy):
    """new_event_loop() hands out the shared virtual loop: the library's own sync facade
    (run_async_from_sync) then runs on it unmodified."""

    def __init__(self, vloop):
        super().__init__()
        self.vloop = vloop

    def new_event_loop(self):
        return self.vloop


def explore(run_fn, bound=None, batch=False, max_execs=None, on_exec=None, roots=None,
            seen=None, time_cap=None):
    """Stateless DFS over choice prefixes with deviation/preemption bounding.
    run_fn(chooser) runs one complete execution.  `roots`: prefixes to start from (default: the
    empty prefix); the subtree of a root contains exactly the schedules that extend it at later
    points, so disjoint roots give disjoint subtrees.  Returns dict of stats."""
    import time as _time
    t_end = (_time.time() + time_cap) if time_cap else None
    stack = [list(r) for r in (roots if roots is not None else [[]])]
    execs = 0
    maxpoints = 0
    capped = False
    pruned = 0
    INF = float("inf")
    while stack:
        prefix = stack.pop()
        ch = Chooser(prefix, batch)
        run_fn(ch)
        execs += 1
        if on_exec:
            on_exec(ch)
        maxpoints = max(maxpoints, len(ch.points))
        if len(ch.points) < len(prefix):
            raise ReplayDivergence(f"prefix {prefix} had {len(prefix)} points, run only "
                                   f"{len(ch.points)}")
        cost = sum(p[3] for p in ch.points[:len(prefix)] if p[1])
        for i in range(len(prefix), len(ch.points)):
            nopt, _c, _tags, altcost, state = ch.points[i]
            if seen is not None and state is not None:
                # explicit-state pruning: a global state reached before with at least as much
                # budget left has (or will have) all its continuations explored from there
                left = INF if bound is None else bound - cost
                if seen.get(state, -1) >= left:
                    pruned += 1
                    break
                seen[state] = left
            if bound is not None and cost + altcost > bound:
                continue
            base = ch.choices[:i]
            for alt in range(1, nopt):
                stack.append(base + [alt])
        if max_execs and execs >= max_execs:
            capped = bool(stack)
            break
        if t_end is not None and _time.time() > t_end:
            # a wall-clock cap is a cap (reported, "exhaustive": false), never a violation
            capped = bool(stack)
            break
    return {"executions": execs, "max_points": maxpoints, "capped": capped,
            "bound": bound, "pruned": pruned, "states": len(seen) if seen is not None else None}


def first_level(run_fn, bound=None, batch=False):
    """Runs the default schedule and returns the list of first-level prefixes (one per
    alternative at every point) - the roots of disjoint subtrees for parallel exploration."""
    ch = Chooser([], batch)
    run_fn(ch)
    roots = []
    for i, (nopt, _c, _tags, altcost, _st) in enumerate(ch.points):
        if bound is not None and altcost > bound:
            continue
        for alt in range(1, nopt):
            roots.append([0] * i + [alt])
    return roots, len(ch.points)

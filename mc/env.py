"""Closed environment for generated machines.

Every user callback the harness defines is a thin shim that calls into the
*current* ``Env`` (``CUR.env``).  The Env records what the callback saw and
consults immutable plans (guard valuation, faults, nested sends, results).
The reference interpreter (ref.py) consults the same plans with its own
counters, so implementation and reference stay in lock-step without sharing
mutable state.
"""

from collections import Counter


class Boom(Exception):
    """Injected callback failure."""

    def __eq__(self, other):
        return type(other) is type(self) and self.args == other.args

    def __hash__(self):
        return hash(self.args)


class BoomRT(Boom, RuntimeError):
    pass


class BoomLookup(Boom, LookupError):
    pass


class BoomAttr(Boom, AttributeError):
    pass


class BoomType(Boom, TypeError):
    pass


def _library_families():
    """Failures whose class is one of the library's own exception classes (a callback that
    drives a second machine fails with exactly these): the engine must not mistake them for its
    own signals."""
    try:
        from statemachine.exceptions import (InvalidDefinition, InvalidStateValue,
                                             TransitionNotAllowed)
    except ImportError:      # pragma: no cover
        return ()

    def mk(name, base):
        def __init__(self, k):
            Exception.__init__(self, k)
            self.event = self.state = self.value = None
        return type(name, (Boom, base), {"__init__": __init__})
    return (mk("BoomTNA", TransitionNotAllowed), mk("BoomInvalidDefinition", InvalidDefinition),
            mk("BoomInvalidStateValue", InvalidStateValue))


BOOMS = (Boom, BoomRT, BoomLookup, BoomAttr, BoomType) + _library_families()


def make_boom(k):
    """Fault k raises an exception whose class rotates over several builtin families, so that
    code which swallows e.g. RuntimeError/AttributeError/TypeError internally is exposed."""
    return BOOMS[k % len(BOOMS)](k)


class ValidatorError(Exception):
    """Raised by a generated validator whose valuation says 'reject'."""

    def __eq__(self, other):
        return type(other) is type(self) and self.args == other.args

    def __hash__(self):
        return hash(self.args)


class Veto(BaseException):
    """Raised by a generated validator whose valuation is VETO: an application-defined exception
    that is deliberately not an `Exception` (control-flow style).  It aborts the event like any
    other exception a validator raises."""


VETO = ("veto",)


class Holder:
    env = None


CUR = Holder()


class Rec:
    """One callback invocation (observed or expected)."""

    __slots__ = (
        "cid", "n", "kind", "tidx", "event", "source", "target", "state", "cur",
        "active", "tag", "args", "ukw", "children", "ended", "value", "sent",
        "seq_begin", "seq_end", "depth", "thread", "mid",
    )

    def __init__(self, cid, n=0, kind="act", tidx=None, event=None, source=None, target=None,
                 state=None, cur=None, active=None, tag=None, args=(), ukw=None):
        self.cid = cid
        self.n = n
        self.kind = kind
        self.tidx = tidx
        self.event = event
        self.source = source
        self.target = target
        self.state = state
        self.cur = cur
        self.active = active
        self.tag = tag
        self.args = args
        self.ukw = ukw
        self.children = []
        self.ended = False
        self.value = None
        self.sent = []
        self.seq_begin = -1
        self.seq_end = -1
        self.depth = None
        self.thread = None
        self.mid = None

    def brief(self):
        return (f"{self.cid[0]}.{self.cid[1]}[t{self.tidx} ev={self.event} {self.source}->"
                f"{self.target} state={self.state} cur={self.cur!r} tag={self.tag!r}]")

    def as_json(self):
        d = {"cid": list(self.cid), "n": self.n, "kind": self.kind, "tidx": self.tidx,
             "event": self.event, "source": self.source, "target": self.target,
             "state": self.state, "cur": repr(self.cur), "tag": self.tag}
        if self.children:
            d["children"] = [c.as_json() for c in self.children]
        return d


# plans -------------------------------------------------------------------------
class Plan:
    """Immutable description of what generated callbacks do.

    faults: {(cid, tag, tidx): k}      raise make_boom(k) in that invocation (tag identifies the
                                       event instance, tidx the candidate transition)
    rules:  {(cid, event_name): (events_to_send, budget)}  nested sends; the rule fires at most
                                       `budget` times, new tags derive from the parent tag
    rets:   {cid: value}               static return values (default: "<prov>.<name>@<tag>")
    A callback first sends, then raises, then returns.
    """

    __slots__ = ("faults", "rules", "rets")

    def __init__(self, faults=None, rules=None, rets=None):
        self.faults = faults or {}
        self.rules = rules or {}
        self.rets = rets or {}

    def to_json(self):
        return {
            "faults": [[list(c), t, i, k] for (c, t, i), k in self.faults.items()],
            "rules": [[list(c), e, list(r[0]), r[1]] + list(r[2:]) for (c, e), r in self.rules.items()],
            "rets": [[list(c), repr(v)] for c, v in self.rets.items()],
        }

    @staticmethod
    def from_json(d):
        return Plan(
            faults={(tuple(c), t, i): k for c, t, i, k in d.get("faults", [])},
            rules={(tuple(r[0]), r[1]): (tuple(r[2]), r[3]) + tuple(r[4:]) for r in d.get("rules", [])},
            rets={tuple(c): eval(v) for c, v in d.get("rets", [])},  # noqa: S307
        )


NOPLAN = Plan()


def child_tag(ptag, cid, k):
    return f"{ptag}/{cid[0]}.{cid[1]}.{k}"


def _sid(state):
    if state is None:
        return None
    try:
        return state.id
    except Exception:  # pragma: no cover
        return "?"


class Env:
    def __init__(self, built, vals=None, plan=None, deep=False, results="cid", call_style="send",
                 measure_depth=False):
        self.built = built
        self.vals = vals if vals is not None else {}
        self.plan = plan or NOPLAN
        self.count = Counter()
        self.fired = Counter()
        self.top = []          # top-level observed calls, in begin order
        self.stack = []        # open calls (sync nesting)
        self.flat = []         # every call in begin order
        self.seq = 0
        self.deep = deep
        self.results = results
        self.nested_returns = []   # (cid, n, ev, tag, returned | exc)
        self.tidx_of = built.tidx_of if built is not None else {}
        self.call_style = call_style
        self.measure_depth = measure_depth
        self.notes = []
        self.yield_hook = None     # thread explorer: explicit scheduling point inside callbacks
        self.flat_mode = False     # async engines: callbacks of one group overlap, never nest
        self.record_thread = False

    # -- observation helpers ---------------------------------------------------
    def _mk(self, prov, name, kind, args, kwargs):
        cid = (prov, name)
        n = self.count[cid]
        self.count[cid] = n + 1
        tr = kwargs.get("transition")
        sm = kwargs.get("machine")
        ukw = {k: v for k, v in kwargs.items() if k not in _BUILTIN}
        rec = Rec(
            cid, n, kind,
            tidx=self.tidx_of.get(id(tr), -1),
            event=str(kwargs.get("event")),
            source=_sid(kwargs.get("source")),
            target=_sid(kwargs.get("target")),
            state=_sid(kwargs.get("state")),
            tag=ukw.get("tag"),
            args=tuple(args),
            ukw=ukw,
        )
        if self.record_thread:
            import threading
            rec.thread = threading.get_ident()
            rec.mid = id(sm) if sm is not None else None
        if sm is not None:
            try:
                rec.cur = sm.current_state_value
            except Exception as e:  # pragma: no cover
                rec.cur = ("EXC", type(e).__name__)
            if self.deep:
                act = []
                for s in sm.states:
                    try:
                        if getattr(sm, s.id).is_active:
                            act.append(s.id)
                    except Exception as e:
                        act.append(("EXC", s.id, type(e).__name__))
                rec.active = tuple(act)
                ed = kwargs.get("event_data")
                if ed is not None:
                    # the EventData object must describe the same event/transition
                    if ed.transition is not tr or ed.machine is not sm:
                        self.notes.append(("event_data-mismatch", cid))
        if self.measure_depth:
            import sys
            d = 0
            f = sys._getframe(1)
            while f is not None:
                d += 1
                f = f.f_back
            rec.depth = d
        return rec

    def begin(self, rec):
        rec.seq_begin = self.seq
        self.seq += 1
        (self.stack[-1].children if (self.stack and not self.flat_mode) else self.top).append(rec)
        self.flat.append(rec)
        self.stack.append(rec)

    def end(self, rec):
        rec.seq_end = self.seq
        self.seq += 1
        rec.ended = True
        # sync nesting: the record is on top of the stack; async: remove wherever
        if self.stack and self.stack[-1] is rec:
            self.stack.pop()
        else:
            try:
                self.stack.remove(rec)
            except ValueError:  # pragma: no cover
                pass

    def default_result(self, rec):
        if rec.cid in self.plan.rets:
            return self.plan.rets[rec.cid]
        if self.results == "cid":
            return f"{rec.cid[0]}.{rec.cid[1]}@{rec.tag}"
        return None

    # -- sync shims ------------------------------------------------------------
    def call(self, obj, name, args, kwargs):
        prov = getattr(obj, "_prov", obj) if not isinstance(obj, str) else obj
        role = self.built.roles.get(name, "act")
        if role == "guard":
            rec = self._mk(prov, name, "guard", args, kwargs)
            self.begin(rec)
            v = self.vals.get((prov, name), self.vals.get(name, True))
            rec.value = v
            self.end(rec)
            if isinstance(v, tuple) and v and v[0] == "raise":
                raise make_boom(v[1])
            return v
        if role == "val":
            rec = self._mk(prov, name, "val", args, kwargs)
            self.begin(rec)
            ok = self.vals.get((prov, name), self.vals.get(name, True))
            rec.value = ok
            if ok is VETO:
                self.end(rec)
                raise Veto(name)
            if not ok:
                self.end(rec)
                raise ValidatorError(name)
            # validators may also carry plan steps (faults)
            try:
                self._steps(rec, kwargs)
            finally:
                self.end(rec)
            return f"val:{name}"
        rec = self._mk(prov, name, "act", args, kwargs)
        self.begin(rec)
        try:
            if self.yield_hook is not None:
                self.yield_hook()
            return self._steps(rec, kwargs)
        finally:
            self.end(rec)

    def _steps(self, rec, kwargs):
        plan = self.plan
        rule = plan.rules.get((rec.cid, rec.event))
        if rule is not None:
            evs, budget = rule[0], rule[1]
            same = len(rule) > 2      # identical nested sends (same tag, same kwargs)
            key = (rec.cid, rec.event)
            if self.fired[key] < budget:
                self.fired[key] += 1
                sm = kwargs.get("machine")
                for k, ev in enumerate(evs):
                    tag = child_tag(rec.tag, rec.cid, 0 if same else k)
                    try:
                        r = self.do_send(sm, ev, tag)
                    except Exception as e:
                        self.nested_returns.append((rec.cid, ev, tag, ("EXC", e)))
                        raise
                    if hasattr(r, "close") and hasattr(r, "send"):
                        # a plain-function callback on the async engine inside a running loop
                        # gets the engine's (no-op) processing coroutine back and cannot await
                        # it; the event itself is already queued.  Not counted as a result.
                        r.close()
                        r = None
                    self.nested_returns.append((rec.cid, ev, tag, r))
        k = plan.faults.get((rec.cid, rec.tag, rec.tidx))
        if k is not None:
            raise make_boom(k)
        return self.default_result(rec)

    def do_send(self, sm, ev, tag):
        if ev.startswith("="):
            # external write of a valid state value from inside the callback
            sm.current_state_value = self.built.m.state(ev[1:]).val
            return None
        if self.call_style == "method":
            return getattr(sm, ev)(tag=tag)
        return sm.send(ev, tag=tag)

    # -- async shims -----------------------------------------------------------
    async def acall(self, obj, name, args, kwargs):
        prov = getattr(obj, "_prov", obj) if not isinstance(obj, str) else obj
        role = self.built.roles.get(name, "act")
        points = self.built.await_points.get((prov, name), 0)
        if role == "guard":
            rec = self._mk(prov, name, "guard", args, kwargs)
            self.begin(rec)
            v = self.vals.get((prov, name), self.vals.get(name, True))
            rec.value = v
            for i in range(points):
                await self.point((prov, name, rec.n, i))
            self.end(rec)
            if isinstance(v, tuple) and v and v[0] == "raise":
                raise make_boom(v[1])
            return v
        if role == "val":
            rec = self._mk(prov, name, "val", args, kwargs)
            self.begin(rec)
            ok = self.vals.get((prov, name), self.vals.get(name, True))
            rec.value = ok
            for i in range(points):
                await self.point((prov, name, rec.n, i))
            if ok is VETO:
                self.end(rec)
                raise Veto(name)
            if not ok:
                self.end(rec)
                raise ValidatorError(name)
            try:
                await self._asteps(rec, kwargs)
            finally:
                self.end(rec)
            return f"val:{name}"
        rec = self._mk(prov, name, "act", args, kwargs)
        self.begin(rec)
        try:
            for i in range(points):
                await self.point((prov, name, rec.n, i))
            return await self._asteps(rec, kwargs)
        except BaseException as e:
            if type(e).__name__ == "CancelledError" and points:
                # a callback that cleans up asynchronously when it is cancelled: whoever cancels
                # it has to wait for it as well
                await self.point((prov, name, rec.n, "cleanup"))
            raise
        finally:
            self.end(rec)

    async def _asteps(self, rec, kwargs):
        import inspect
        plan = self.plan
        rule = plan.rules.get((rec.cid, rec.event))
        if rule is not None:
            evs, budget = rule[0], rule[1]
            same = len(rule) > 2      # identical nested sends (same tag, same kwargs)
            key = (rec.cid, rec.event)
            if self.fired[key] < budget:
                self.fired[key] += 1
                sm = kwargs.get("machine")
                for k, ev in enumerate(evs):
                    tag = child_tag(rec.tag, rec.cid, 0 if same else k)
                    try:
                        r = self.do_send(sm, ev, tag)
                        if inspect.isawaitable(r):
                            r = await r
                    except Exception as e:
                        self.nested_returns.append((rec.cid, ev, tag, ("EXC", e)))
                        raise
                    self.nested_returns.append((rec.cid, ev, tag, r))
        k = plan.faults.get((rec.cid, rec.tag, rec.tidx))
        if k is not None:
            raise make_boom(k)
        return self.default_result(rec)

    async def point(self, tag):
        """An await point.  Default: yield once to the loop (like sleep(0)).
        The completion-order explorer replaces this method."""
        import asyncio
        loop = asyncio.get_running_loop()
        if hasattr(loop, "point"):
            await loop.point(tag)
        else:
            await asyncio.sleep(0)


_BUILTIN = frozenset(
    ["event_data", "machine", "event", "model", "transition", "state", "source", "target"]
)

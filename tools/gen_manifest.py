#!/venv/bin/python
"""Regenerates /verif/MANIFEST.json from the table below (keeps it schema-valid)."""
import json, os, sys
ROOT = os.path.dirname(os.path.dirname(os.path.abspath(__file__)))
BASE = ("cd /repo && /venv/bin/python -m pytest -ra -q -p no:cacheprovider --timeout=900 "
        "--continue-on-collection-errors")

CHECKS = {}


def chk(pid, category, technique, text, note, ref):
    CHECKS[pid] = dict(category=category, technique=technique, text=text, note=note, ref=ref)


sys.path.insert(0, os.path.join(ROOT, "tools"))
from manifest_table import TABLE, NOT_BUILT  # noqa: E402

checks = []
for pid in sorted(TABLE):
    t = TABLE[pid]
    checks.append({
        "property_id": pid,
        "quick_cmd": f"./check {pid} --tier quick",
        "thorough_cmd": f"./check {pid} --tier thorough",
        "evidence_file": f"/verif/evidence/{pid}.json",
        "replay_cmd_template": f"./check {pid} --replay {{path}}",
        "engine": t.get("engine", "mc-explorer"),
        "level_claimed": {"category": t.get("category", "model_checking"), "text": t["text"],
                          "design_ref": t["ref"]},
        "level_note": t["note"],
        "technique": t["technique"],
    })
props = [json.loads(l)["id"] for l in open(os.path.join(ROOT, "properties.jsonl"))]
na = [{"property_id": p, "reason": NOT_BUILT.get(p, "check not built yet in this session; see DESIGN.md section 3 for the plan")}
      for p in props if p not in TABLE]
man = {
    "version": 1,
    "setup_cmd": "chmod +x /verif/check && /venv/bin/python -c 'import statemachine, pydot'",
    "hooks": {
        "guard": "PYSM_VERIF",
        "enable": "no source hooks are needed: scheduling points come from sys.settrace / a virtual asyncio loop, faults and guards from harness-supplied callbacks; checks import /repo's working tree directly (PYTHONPATH=/repo)",
        "baseline_off_cmd": BASE,
        "source_commits": [],
        "add_only": True,
    },
    "engines": [
        {"name": "mc-explorer", "path": "/verif/mc", "serves_properties": sorted(TABLE),
         "kind_free_text": "hand-written explicit-state / stateless explorers in Python running the real library: product BFS over (machine, config, stored state) nodes, history enumeration, fault-position enumeration, virtual-asyncio-loop completion-order exploration, settrace-baton preemption-bounded thread schedule exploration; each execution is compared with a reference interpreter (mc/ref.py)"},
    ],
    "checks": checks,
    "not_applicable": na,
    "notes": "All checks rebuild nothing: they import the working tree of $VERIF_REPO (default /repo) with a fresh PYTHONPYCACHEPREFIX. VERIF_SEED only permutes traversal order/worker assignment. Known findings: /verif/known_findings.json.",
}
with open(os.path.join(ROOT, "MANIFEST.json"), "w") as f:
    json.dump(man, f, indent=1)
    f.write("\n")
print("claimed:", sorted(TABLE), "not claimed:", [x["property_id"] for x in na])

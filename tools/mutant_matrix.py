#!/venv/bin/python
"""Runs each seeded change against its property's check and related checks (scratch worktrees,
never /repo itself) and writes seeded/RESULTS.json + a table on stdout.
usage: tools/mutant_matrix.py [--all] [ids...]"""
import json, os, subprocess, sys, tempfile, time
ROOT = os.path.dirname(os.path.dirname(os.path.abspath(__file__)))
REL = {"C01": ["C13", "C15", "C04"], "C02": ["C05", "C12", "C07"], "C03": ["C04", "C06", "C17"],
       "C04": ["C03", "C05", "C08", "C06"], "C05": ["C04", "C14", "C12"], "C06": ["C03", "C05"], "C07": ["C16", "C03"],
       "C08": ["C15", "C12"], "C09": ["C18", "C15"], "C10": ["C11", "C16", "C13"], "C11": ["C10", "C07", "C13"],
       "C12": ["C02", "C17"], "C13": ["C15", "C17"], "C14": ["C12", "C03", "C06"], "C15": ["C08", "C13"],
       "C16": ["C07", "C12", "C10", "C13"], "C17": ["C16"], "C18": ["C17"]}
ALL = sorted(REL)
args = sys.argv[1:]
full = "--all" in args
ids = [a for a in args if not a.startswith("--")] or sorted(os.listdir(os.path.join(ROOT, "seeded")))
ids = [i for i in ids if os.path.isdir(os.path.join(ROOT, "seeded", i))]
out_path = os.path.join(ROOT, "seeded", "RESULTS.json")
try:
    results = json.load(open(out_path))
except Exception:
    results = {}
import threading
from concurrent.futures import ThreadPoolExecutor
JOBS = int(os.environ.get("MATRIX_JOBS", "2"))
_lock = threading.Lock()


def one(mid):
    prop = mid.split("-")[0]
    checks = ALL if full else [prop] + REL[prop]
    w = tempfile.mkdtemp(prefix="mm.")
    subprocess.run(["git", "-C", "/repo", "worktree", "add", "-q", "--detach", w, "HEAD"],
                   capture_output=True)
    ap = subprocess.run(["git", "-C", w, "apply", os.path.join(ROOT, "seeded", mid, "patch.diff")],
                        capture_output=True, text=True)
    with _lock:
        row = results.setdefault(mid, {})
        row.clear()
    if ap.returncode != 0:
        row["_apply"] = "FAILED"
    else:
        row["_apply"] = "ok"
        for c in checks:
            t0 = time.time()
            p = subprocess.run([os.path.join(ROOT, "check"), c, "--tier", "quick"],
                               capture_output=True, text=True, cwd=ROOT,
                               env=dict(os.environ, VERIF_REPO=w,
                                        VERIF_NPROC=str(max(4, 16 // JOBS))))
            nviol = sum(1 for l in p.stdout.splitlines() if l.startswith("VIOLATION"))
            row[c] = {"rc": p.returncode, "violation_lines": nviol, "wall_s": round(time.time() - t0, 1)}
            print(mid, c, row[c], flush=True)
            if c == prop and p.returncode == 1 and not full and os.environ.get("MATRIX_CROSS") != "1":
                break      # caught by its own check: the related checks are only asked otherwise
    subprocess.run(["git", "-C", "/repo", "worktree", "remove", "--force", w], capture_output=True)
    subprocess.run(["rm", "-rf", w])
    row["_head"] = subprocess.run(["git", "-C", "/repo", "log", "--format=%h", "-1"],
                                  capture_output=True, text=True).stdout.strip()
    with _lock:
        json.dump(results, open(out_path, "w"), indent=1, sort_keys=True)


with ThreadPoolExecutor(JOBS) as ex:
    list(ex.map(one, ids))
print("\nid       own-check  caught-by")
for mid in sorted(results):
    row = results[mid]
    prop = mid.split("-")[0]
    caught = [c for c, v in row.items() if not c.startswith("_") and v["rc"] == 1]
    own = row.get(prop, {}).get("rc")
    print(f"{mid:9s} {'CAUGHT' if own == 1 else 'missed' if own == 0 else own!s:9s} {caught}")

NOT_BUILT = {}
TABLE = {
 "C01": dict(
   technique="explicit-state product exploration of the real library (all candidate lists x guard valuations x events x 8 configs) + bounded history enumeration, compared with a reference selector",
   text="Every (state, event, valuation) edge of every machine in the bounded candidate family is executed on the real engines (sync rtc/non-rtc, async facade/in-loop, coroutine masks none/all/actions-only) and compared with an independent reference selector: stored state, exception class and its event/state, callback trace, allowed_events. Exhaustive within the stated bounds; nothing sampled.",
   note="Trusted: reference interpreter mc/ref.py (selection in declaration order, all-of cond, none-of unless, validators first) and the shims in mc/spec.py. Bounds: <=2 (3 reduced) candidates per state, two guard names, one validator, histories <=2 (3).",
   ref="DESIGN.md section 3 C01"),
 "C03": dict(
   technique="exhaustive enumeration of nested-send rule sets x external histories x 4 engine configs on the real library, each execution compared step-by-step with a deque reference model; stack-depth monitor on self-triggering chains up to 2000 links",
   text="Every scenario of the bounded family (<=2 rules quick / <=3 thorough placing 1-2 nested sends in any callback phase of any provider incl. initial activation; histories <=2/3; sync rtc, sync non-rtc, async facade, async in-loop; generic and sparse callback rings) is executed on the real engines; the exact group sequence per event instance, the state every callback observes, every nested call's return value and the outer call's result are compared with the reference. Chains of 1/5/50/2000 self-sends must run at constant frame depth under RTC.",
   note="Trusted: mc/ref.py deque semantics. Scenarios whose queue order would depend on intra-group callback order (two sending callbacks in one group) are excluded and counted (ambiguous_skipped).",
   ref="DESIGN.md section 3 C03"),
 "C04": dict(
   category="fault_enumeration",
   technique="fault enumeration: every callback invocation position of every base scenario (from the validated reference trace) is re-executed with an injected exception, then follow-up events and second faults; compared with a reference that has fault semantics",
   text="Single faults at every callback invocation position (validators, guards, before, exit, on, enter, after; machine, model, listener; first, nested and queued transitions) of every base scenario, plus double faults (second fault at every position of the follow-up) on the rule-free and guarded families, on sync rtc/non-rtc and async engines; exception identity at the outermost caller, stored state, dropped queue, lock/queue cleanliness and normal processing of three follow-up events are checked against the reference.",
   note="Trusted: mc/ref.py. Fault classes rotate over Exception/RuntimeError/LookupError/AttributeError/TypeError subclasses; BaseException is outside the statement. Siblings of the failing callback inside the same group may or may not run.",
   ref="DESIGN.md section 3 C04"),
 "C02": dict(
   technique="exhaustive enumeration of callback-slot populations (84 slots: group x attachment way x provider) x 8 transition kinds x 5 engine/coroutine masks on generated classes of the real library, group-wise comparison with a reference group sequence",
   text="All populations of <=2 slots (thorough <=3 and all-but-one) plus the full population are rendered into real classes (naming convention, generic names, inline names, inline callables, decorators; machine, model, listener; same name in several groups) and executed for external/self/internal transitions fired by either event of a multi-event transition, a second candidate behind a rejected one, and initial activation, on sync rtc/non-rtc and async (all coroutines / first only / plain functions returning awaitables). Strict order between groups, exactly-once inside, injected event/source/target/state, current state value and is_active seen from inside are compared with the reference; the transition is fired twice.",
   note="Trusted: applicability rules and group sequence in mc/ref.py. Order inside a group is unconstrained as documented. Guard names provided by several objects stay plain functions here (see known findings C05/C12).",
   ref="DESIGN.md section 3 C02"),
 "C14": dict(
   technique="exhaustive enumeration of before/on slot populations x typed return-value assignments x transition kinds x engines x calling styles on the real library, compared with the unwrap rule",
   text="Every population of <=2 (thorough <=3) of 26 before/on slots, every assignment of 8 typed return values (None, 0, '', [], [1,2], (1,), {}, 'x'), for external/self/internal transitions fired by either event, and for events that fire nothing, via send() and the event method, sync/async: the result must be None / the single value / the list of before-then-on results; guards, validators, exit, enter, after sentinels and nested events' results never appear.",
   note="Trusted: unwrap rule as stated in the property; before results first, multiset equality inside each group.",
   ref="DESIGN.md section 3 C14"),
 "C13": dict(
   technique="explicit-state product exploration: every (state, event, valuation) edge fired through six calling styles on the real library and compared with the reference; exhaustive name probe over dir(sm) in every state with a before/after snapshot",
   text="On the C01 machine family (plus an inheritance rendering where a subclass adds transitions to inherited states via event=) every edge is executed via send(), the event method, the items of sm.events and sm.allowed_events, bind_events_to triggers and MachineMixin(bind_events_as_methods); every style must agree with the reference (hence with each other) on result, exception, trace and stored state; allowed_events (ordered, unique) and events are compared in every visited state. Every attribute name of the machine, every state id, '', '__initial__' and lookalike strings are sent in every state of strict and tolerant, sync and async machines: TransitionNotAllowed/None, no callback, snapshot unchanged.",
   note="Trusted: mc/ref.py; the snapshot (model field, sm.__dict__ keys, listeners, queue, lock, callback counter) is what 'no other attribute was invoked' is judged by.",
   ref="DESIGN.md section 3 C13"),
 "C10": dict(
   technique="exhaustive enumeration of typed value alphabets x model shapes x state_field x start_value/stored value x operation sequences (events, valid and invalid external writes) on the real library; store invariants evaluated after every operation and inside every callback against a reference store",
   text="For 8 typed value alphabets (str incl. '', int incl. 0/negatives, enum members, tuples, mixed, float/bool; two states share a display name), every initial-state position, 7 model shapes (default, plain, property-backed, class-level default, falsy via __len__, falsy via __bool__, MachineMixin), 3 state_field names, start_value unset/each value/unmapped, model pre-loaded with each value, sync rtc/non-rtc and async: every single operation (and operation pairs on the core shapes) from events, writes through sm.current_state_value, sm.current_state (instance and class State) and setattr(model), and invalid writes; after each, and inside each callback, model field (value and type), current_state, current_state_value, exactly-one is_active and model identity are checked.",
   note="Trusted: reference store in mc/ref.py. State values inside one machine are pairwise unequal.",
   ref="DESIGN.md section 3 C10"),
 "C11": dict(
   technique="exhaustive history enumeration (length <=3 quick / <=4 thorough) over {events, activate_initial_state(), re-construction over the same model with/without start_value} x stored value x start_value x initial-enter send rules x 5 engine configs on the real library, compared with a reference activation log",
   text="Every history is executed on the real engines and compared with the reference: exactly one enter group of the start state under __initial__ iff the model holds no state, otherwise no callback at all and the stored value (incl. falsy 0 and '') untouched; re-activation is a no-op; a machine re-constructed over the same model after any history continues exactly like its predecessor; on the async engine activation precedes the first event's first callback whether or not activate_initial_state() is called explicitly.",
   note="Trusted: mc/ref.py activation semantics. The same generated class is reused across all start_value/stored combinations inside a worker, so class-level caching of per-instance data is exposed.",
   ref="DESIGN.md section 3 C11"),
}

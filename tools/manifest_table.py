NOT_BUILT = {}
TABLE = {
 "C01": dict(
   technique="explicit-state product exploration of the real library (all candidate lists x guard valuations x events x 8 configs) + bounded history enumeration, compared with a reference selector",
   text="Every (state, event, valuation) edge of every machine in the bounded candidate family is executed on the real engines (sync rtc/non-rtc, async facade/in-loop, coroutine masks none/all/actions-only) and compared with an independent reference selector: stored state, exception class and its event/state, callback trace, allowed_events. Exhaustive within the stated bounds; nothing sampled.",
   note="Trusted: reference interpreter mc/ref.py (selection in declaration order, all-of cond, none-of unless, validators first) and the shims in mc/spec.py. Bounds: <=2 (3 reduced) candidates per state, two guard names, one validator, histories <=2 (3).",
   ref="DESIGN.md section 3 C01"),
}

NOT_BUILT = {}
TABLE = {
 "C01": dict(
   technique="explicit-state product exploration of the real library (all candidate lists x guard valuations x events x 8 configs) + bounded history enumeration, compared with a reference selector",
   text="Every (state, event, valuation) edge of every machine in the bounded candidate family is executed on the real engines (sync rtc/non-rtc, async facade/in-loop, coroutine masks none/all/actions-only) and compared with an independent reference selector: stored state, exception class and its event/state, callback trace, allowed_events. Exhaustive within the stated bounds; nothing sampled.",
   note="Trusted: reference interpreter mc/ref.py (selection in declaration order, all-of cond, none-of unless, validators first) and the shims in mc/spec.py. Bounds: <=2 (3 reduced) candidates per state, two guard names, one validator, histories <=2 (3).",
   ref="DESIGN.md section 3 C01"),
 "C03": dict(
   technique="exhaustive enumeration of nested-send rule sets x external histories x 4 engine configs on the real library, each execution compared step-by-step with a deque reference model; stack-depth monitor on self-triggering chains up to 2000 links",
   text="Every scenario of the bounded family (<=2 rules quick / <=3 thorough placing 1-2 nested sends in any callback phase of any provider incl. initial activation; histories <=2/3; sync rtc, sync non-rtc, async facade, async in-loop; generic and sparse callback rings) is executed on the real engines; the exact group sequence per event instance, the state every callback observes, every nested call's return value and the outer call's result are compared with the reference. Chains of 1/5/50/2000 self-sends must run at constant frame depth under RTC.",
   note="Trusted: mc/ref.py deque semantics. Scenarios whose queue order would depend on intra-group callback order (two sending callbacks in one group) are excluded and counted (ambiguous_skipped).",
   ref="DESIGN.md section 3 C03"),
 "C04": dict(
   category="fault_enumeration",
   technique="fault enumeration: every callback invocation position of every base scenario (from the validated reference trace) is re-executed with an injected exception, then follow-up events and second faults; compared with a reference that has fault semantics",
   text="Single faults at every callback invocation position (validators, guards, before, exit, on, enter, after; machine, model, listener; first, nested and queued transitions) of every base scenario, plus double faults (second fault at every position of the follow-up) on the rule-free and guarded families, on sync rtc/non-rtc and async engines; exception identity at the outermost caller, stored state, dropped queue, lock/queue cleanliness and normal processing of three follow-up events are checked against the reference.",
   note="Trusted: mc/ref.py. Fault classes rotate over Exception/RuntimeError/LookupError/AttributeError/TypeError subclasses; BaseException is outside the statement. Siblings of the failing callback inside the same group may or may not run.",
   ref="DESIGN.md section 3 C04"),
}

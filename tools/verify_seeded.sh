#!/bin/bash
# usage: tools/verify_seeded.sh <srcdir> <prop> <mK> <outdir>
# Confirms a candidate seeded change independently: (1) patch applies to a pristine worktree of
# /repo HEAD, (2) the pinned suite still passes with it, (3) the demo exits 0 without the change
# and non-zero with it.  Writes <outdir>/<prop>_<mK>.verify.json.  Scratch tree removed at the end.
SRC="$1"; PROP="$2"; MK="$3"; OUT="$4"
W="$(mktemp -d /tmp/vs.XXXXXX)"
git -C /repo worktree add -q --detach "$W" HEAD >/dev/null 2>&1
cd "$W"
/venv/bin/python "$SRC/${MK}_demo.py" >"$OUT/${PROP}_${MK}.demo_clean.log" 2>&1; RC_CLEAN=$?
APPLY=ok
git apply "$SRC/${MK}.diff" || APPLY=failed
/venv/bin/python "$SRC/${MK}_demo.py" >"$OUT/${PROP}_${MK}.demo_mut.log" 2>&1; RC_MUT=$?
SUITE=$(/venv/bin/python -m pytest -q -p no:cacheprovider --timeout=900 2>&1 | tail -1)
WHERE=$(/venv/bin/python -c "import statemachine; print(statemachine.__file__)")
cd /
git -C /repo worktree remove --force "$W"; rm -rf "$W"
printf '{"prop":"%s","mutant":"%s","apply":"%s","demo_rc_clean":%s,"demo_rc_mutant":%s,"suite":"%s","imported":"%s"}\n' \
  "$PROP" "$MK" "$APPLY" "$RC_CLEAN" "$RC_MUT" "$SUITE" "$WHERE" > "$OUT/${PROP}_${MK}.verify.json"

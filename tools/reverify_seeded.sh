#!/bin/bash
# usage: tools/reverify_seeded.sh <seeded-id>  -> prints one JSON line (suite + demo with/without)
ID="$1"; D=/verif/seeded/$ID
W="$(mktemp -d /tmp/vs.XXXXXX)"
git -C /repo worktree add -q --detach "$W" HEAD >/dev/null 2>&1
cd "$W"
/venv/bin/python "$D/demo.py" >/dev/null 2>&1; RC_CLEAN=$?
APPLY=ok; git apply "$D/patch.diff" || APPLY=failed
/venv/bin/python "$D/demo.py" >/dev/null 2>&1; RC_MUT=$?
SUITE=$(/venv/bin/python -m pytest -q -p no:cacheprovider --timeout=900 2>&1 | tail -1)
cd /; git -C /repo worktree remove --force "$W"; rm -rf "$W"
echo "{\"id\":\"$ID\",\"head\":\"$(git -C /repo log --format=%h -1)\",\"apply\":\"$APPLY\",\"demo_rc_clean\":$RC_CLEAN,\"demo_rc_mutant\":$RC_MUT,\"suite\":\"$SUITE\"}"

#!/venv/bin/python
import json,glob,collections,sys
pid=sys.argv[1]
c=collections.Counter(); ex={}
for f in glob.glob(f'/verif/replays/{pid}/*.json'):
    d=json.load(open(f))
    k=json.dumps(d['sig'],sort_keys=True)
    c[k]+=1; ex.setdefault(k,(f,d['message'][:900]))
for k,v in c.most_common(30): print(v,k,'\n   ',ex[k][0],'\n   ',ex[k][1])

#!/venv/bin/python
"""For every 'fixed:' entry of known_findings.json: re-introduce the defect (reverse-apply the fix
commit onto a scratch worktree of /repo HEAD) and run the property's quick check against it.
Writes seeded/REVERTS.json.  A fix whose reverse patch no longer applies cleanly is reported as
'not-applicable' (later commits rewrote the same lines)."""
import json, os, re, subprocess, sys, tempfile
ROOT = os.path.dirname(os.path.dirname(os.path.abspath(__file__)))
kf = json.load(open(os.path.join(ROOT, "known_findings.json")))
out = {}
for line in kf["fixed"]:
    m = re.match(r"fixed: property=(C\d+) (\w+) (.*)", line)
    prop, sha, what = m.group(1), m.group(2), m.group(3)
    w = tempfile.mkdtemp(prefix="rv.")
    subprocess.run(["git", "-C", "/repo", "worktree", "add", "-q", "--detach", w, "HEAD"], capture_output=True)
    diff = subprocess.run(["git", "-C", "/repo", "show", "--format=", sha, "--", "statemachine"],
                          capture_output=True, text=True).stdout
    pf = os.path.join(w, ".fix.diff")
    open(pf, "w").write(diff)
    ap = subprocess.run(["git", "-C", w, "apply", "-R", "--3way", pf], capture_output=True, text=True)
    conflicted = subprocess.run(["git", "-C", w, "diff", "--name-only", "--diff-filter=U"],
                                capture_output=True, text=True).stdout.strip()
    row = {"property": prop, "what": what[:160]}
    if ap.returncode != 0 or conflicted:
        row["status"] = "not-applicable (later commits rewrote the same lines)"
    else:
        p = subprocess.run([os.path.join(ROOT, "check"), prop, "--tier", "quick"], capture_output=True,
                           text=True, cwd=ROOT, env=dict(os.environ, VERIF_REPO=w, VERIF_NPROC="8"))
        row["rc"] = p.returncode
        row["violation_lines"] = sum(1 for l in p.stdout.splitlines() if l.startswith("VIOLATION"))
        row["status"] = "DETECTED" if p.returncode == 1 else "missed"
    out[sha] = row
    print(sha, row, flush=True)
    subprocess.run(["git", "-C", "/repo", "worktree", "remove", "--force", w], capture_output=True)
    subprocess.run(["rm", "-rf", w])
    json.dump(out, open(os.path.join(ROOT, "seeded", "REVERTS.json"), "w"), indent=1)

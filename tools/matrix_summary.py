#!/venv/bin/python
"""Markdown summary of seeded/RESULTS.json (per wave: caught by the property's own check /
only by a related check / by none) + the list of changes not caught by their own check."""
import json, os, re, sys
ROOT = os.path.dirname(os.path.dirname(os.path.abspath(__file__)))
res = json.load(open(sys.argv[1] if len(sys.argv) > 1 else os.path.join(ROOT, "seeded", "RESULTS.json")))
waves = {}
other = []
for mid in sorted(res):
    row = res[mid]
    prop = mid.split("-")[0]
    m = re.search(r"-w(\d)m", mid)
    wave = int(m.group(1)) if m else 1
    w = waves.setdefault(wave, {"n": 0, "own": 0, "related": 0, "none": 0, "apply_failed": 0})
    w["n"] += 1
    if row.get("_apply") != "ok":
        w["apply_failed"] += 1
        continue
    caught = [c for c, v in row.items() if not c.startswith("_") and v["rc"] == 1]
    if prop in caught:
        w["own"] += 1
    elif caught:
        w["related"] += 1
        other.append((mid, caught))
    else:
        w["none"] += 1
        other.append((mid, []))
print("| wave | seeded changes | caught by the property's own check | only by a related check | by none |")
print("|---|---|---|---|---|")
for wv in sorted(waves):
    w = waves[wv]
    print(f"| {wv} | {w['n']} | {w['own']} | {w['related']} | {w['none']} |"
          + (f" ({w['apply_failed']} patch(es) did not apply)" if w["apply_failed"] else ""))
print()
for mid, c in other:
    print(f"* `{mid}`: " + ("caught by " + ", ".join(c) if c else "**not caught**"))

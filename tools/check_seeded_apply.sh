#!/bin/bash
# Verifies that every seeded patch applies to /repo HEAD (in a scratch worktree); tries --3way and
# rewrites the patch when only a context rebase is needed.
W="$(mktemp -d /tmp/sa.XXXXXX)"
git -C /repo worktree add -q --detach "$W" HEAD >/dev/null 2>&1
for d in /verif/seeded/*/; do
  id=$(basename "$d")
  if git -C "$W" apply --check "$d/patch.diff" 2>/dev/null; then echo "$id ok"; continue; fi
  if git -C "$W" apply --3way "$d/patch.diff" >/dev/null 2>&1 && ! git -C "$W" diff --name-only --diff-filter=U | grep -q .; then
     git -C "$W" diff HEAD -- statemachine > "$d/patch.diff.new"
     if [ -s "$d/patch.diff.new" ]; then mv "$d/patch.diff.new" "$d/patch.diff"; echo "$id REBASED"; else rm -f "$d/patch.diff.new"; echo "$id EMPTY-AFTER-3WAY"; fi
  else echo "$id CONFLICT"; fi
  git -C "$W" reset -q --hard HEAD; git -C "$W" clean -qfd
done
git -C /repo worktree remove --force "$W"; rm -rf "$W"

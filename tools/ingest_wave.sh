#!/bin/bash
# usage: tools/ingest_wave.sh <wave-dir> <wave-tag> <PROP> [mK ...]
# Confirms each candidate of <wave-dir>/<PROP>/out with verify_seeded.sh and, when confirmed, files it as
# /verif/seeded/<PROP>-<wave-tag>mK (patch.diff, demo.py, notes.md, meta.json).
WD="$1"; TAG="$2"; PROP="$3"; shift 3
MS="${@:-m1 m2}"
SRC="$WD/$PROP/out"; OUT="$WD/verify"; mkdir -p "$OUT"
for MK in $MS; do
  [ -f "$SRC/$MK.diff" ] || { echo "$PROP $MK: no diff"; continue; }
  /verif/tools/verify_seeded.sh "$SRC" "$PROP" "$MK" "$OUT"
  V="$OUT/${PROP}_${MK}.verify.json"
  cat "$V"
  /venv/bin/python - "$V" "$SRC" "$PROP" "$TAG" "$MK" <<'PY'
import json, sys, os, shutil
v = json.load(open(sys.argv[1])); src, prop, tag, mk = sys.argv[2:6]
ok = v["apply"] == "ok" and v["demo_rc_clean"] == 0 and v["demo_rc_mutant"] not in (0,) and v["suite"].startswith("348 passed") and "/tmp/vs." in v["imported"]
mid = f"{prop}-{tag}{mk}"
if not ok:
    print("REJECTED", mid, v); sys.exit(0)
d = f"/verif/seeded/{mid}"; os.makedirs(d, exist_ok=True)
shutil.copy(f"{src}/{mk}.diff", f"{d}/patch.diff"); shutil.copy(f"{src}/{mk}_demo.py", f"{d}/demo.py")
if os.path.exists(f"{src}/notes.md"): shutil.copy(f"{src}/notes.md", f"{d}/notes.md")
meta = {"id": mid, "breaks_property": prop,
 "origin": f"independent sub-agent given only the property text, the titles of earlier seeded changes of the property, and a scratch worktree of the repaired tree (session 3, wave {tag[1:]})",
 "needs_to_manifest": f"see notes.md, section {mk} (sub-agent's description)",
 "confirmed": {"patch_applies_to_pristine_HEAD": True, "baseline_suite_with_change": v["suite"],
   "demo_exit_without_change": v["demo_rc_clean"], "demo_exit_with_change": v["demo_rc_mutant"],
   "how": "tools/verify_seeded.sh in a fresh scratch worktree of /repo HEAD, cwd=worktree"},
 "demo_usage": f"cd <tree> && /venv/bin/python /verif/seeded/{mid}/demo.py"}
json.dump(meta, open(f"{d}/meta.json", "w"), indent=1)
print("KEPT", mid)
PY
done

#!/bin/bash
# usage: tools/try_mutant.sh <patch.diff> <ID> [<ID>...]   (env TIER=quick|thorough)
# Applies the patch to a scratch worktree of /repo (never to /repo itself), runs the given
# checks against it with VERIF_REPO, prints one line per check, removes the scratch tree.
set -u
PATCH="$(realpath "$1")"; shift
W="$(mktemp -d /tmp/mw.XXXXXX)"
git -C /repo worktree add -q --detach "$W" HEAD >/dev/null 2>&1 || { echo "worktree failed"; exit 2; }
if ! git -C "$W" apply "$PATCH"; then echo "APPLY-FAILED $PATCH"; git -C /repo worktree remove --force "$W"; exit 2; fi
for id in "$@"; do
  out="$(cd /verif && VERIF_REPO="$W" ./check "$id" --tier "${TIER:-quick}" 2>&1)"; rc=$?
  nv=$(echo "$out" | grep -c '^VIOLATION')
  echo "== $id rc=$rc violations_lines=$nv :: $(echo "$out" | tail -1)"
  if [ "${SHOW:-0}" != "0" ]; then echo "$out" | grep -E 'VIOLATION|HARNESS|KNOWN' | head -5; fi
done
git -C /repo worktree remove --force "$W"
rm -rf "$W"

#!/bin/bash
# usage: tools/suite_with_patch.sh [patch.diff]  -- runs the pinned baseline suite in a scratch
# worktree of /repo HEAD (+ optional patch, e.g. `git -C /repo diff`), prints the summary line.
W="$(mktemp -d /tmp/sw.XXXXXX)"
git -C /repo worktree add -q --detach "$W" HEAD >/dev/null 2>&1
if [ -n "${1:-}" ]; then git -C "$W" apply "$1" || { echo APPLY-FAILED; git -C /repo worktree remove --force "$W"; exit 2; }; fi
cd "$W" && /venv/bin/python -m pytest -q -p no:cacheprovider --timeout=900 2>&1 | tail -4
cd /; git -C /repo worktree remove --force "$W"; rm -rf "$W"
